#!/usr/bin/env python3
"""Sensitivity helper: run a check against a deliberately broken scratch copy of /repo.

  tools/mut.py <ID> <relative file> <old text> <new text> [--tier quick] [--only name] [--revert <commit>]
  tools/mut.py <ID> --patch <diff file>

Copies /repo/pandora to /tmp/pandora_mut_<pid>/pandora, applies the textual replacement (must match exactly once)
or the patch, runs ./check with VERIF_REPO pointing at the copy, prints the tail of the output and the exit code,
then deletes the copy and its numba cache."""
import argparse
import os
import shutil
import subprocess
import sys

VERIF = os.path.dirname(os.path.dirname(os.path.abspath(__file__)))


def main():
    ap = argparse.ArgumentParser()
    ap.add_argument("prop")
    ap.add_argument("file", nargs="?")
    ap.add_argument("old", nargs="?")
    ap.add_argument("new", nargs="?")
    ap.add_argument("--patch")
    ap.add_argument("--tier", default="quick")
    ap.add_argument("--only", action="append")
    ap.add_argument("--count", type=int, default=1)
    ap.add_argument("--seed", default="1")
    ap.add_argument("--tail", type=int, default=12)
    a = ap.parse_args()
    dst = f"/tmp/pandora_mut_{os.getpid()}"
    shutil.rmtree(dst, ignore_errors=True)
    os.makedirs(dst)
    subprocess.run(["rsync", "-a", "--exclude", "__pycache__", "/repo/pandora", dst + "/"], check=True)
    try:
        if a.patch:
            subprocess.run(["patch", "-p1", "-d", dst, "-i", os.path.abspath(a.patch)], check=True,
                           stdout=subprocess.DEVNULL)
        else:
            p = os.path.join(dst, a.file)
            s = open(p).read()
            if s.count(a.old) != a.count:
                print(f"pattern occurs {s.count(a.old)} times, expected {a.count}")
                return 3
            open(p, "w").write(s.replace(a.old, a.new))
        env = dict(os.environ, VERIF_REPO=dst, VERIF_SEED=a.seed)
        cmd = [os.path.join(VERIF, "check"), a.prop, "--tier", a.tier]
        for o in a.only or []:
            cmd += ["--only", o]
        r = subprocess.run(cmd, env=env, capture_output=True, text=True)
        out = (r.stdout + r.stderr).strip().splitlines()
        print("\n".join(out[-a.tail:]))
        print(f"== exit {r.returncode} ({'DETECTED' if r.returncode == 1 else 'MISSED' if r.returncode == 0 else 'HARNESS-ERROR'})")
        return 0
    finally:
        # drop the scratch tree's numba cache, then the tree
        sys.path.insert(0, VERIF)
        try:
            os.environ["VERIF_REPO"] = dst
            from pbt import env as _env

            h = _env.tree_hash(dst)
            ref = os.path.join(VERIF, ".work", "c18ref")
            for d in os.listdir(ref) if os.path.isdir(ref) else []:
                if d.startswith(h) and h != _env.tree_hash('/repo'):
                    shutil.rmtree(os.path.join(ref, d), ignore_errors=True)
            root = os.path.join(VERIF, ".cache", "numba")
            for d in os.listdir(root) if os.path.isdir(root) else []:
                if d.startswith(h) and h != _env.tree_hash('/repo'):
                    shutil.rmtree(os.path.join(root, d), ignore_errors=True)
        finally:
            shutil.rmtree(dst, ignore_errors=True)


if __name__ == "__main__":
    sys.exit(main())
