#!/usr/bin/env python3
"""validate MANIFEST.json and evidence/*.json against the schemas (run with python3-vt which has jsonschema)"""
import json, glob, sys
import jsonschema
ok = True
m = json.load(open("/verif/MANIFEST.json"))
jsonschema.validate(m, json.load(open("/root/.vp/MANIFEST.schema.json")))
es = json.load(open("/root/.vp/EVIDENCE.schema.json"))
for f in sorted(glob.glob("/verif/evidence/*.json")):
    try:
        jsonschema.validate(json.load(open(f)), es)
    except Exception as e:
        ok = False
        print("INVALID", f, str(e)[:300])
print("ok" if ok else "FAIL")
sys.exit(0 if ok else 1)
