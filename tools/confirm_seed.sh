#!/bin/sh
# tools/confirm_seed.sh <ID> <source dir with patch.diff demo.py notes.md> : independent confirmation of a seeded change
#   1. fresh worktree of /repo HEAD under /tmp; demo.py must exit 0 there
#   2. apply patch.diff; demo.py must exit non-zero
#   3. full repository test suite with the patch: must show exactly the 5 baseline failures
#   4. copy the three files to /verif/seeded/<ID>/ and write confirm.json; remove the worktree
ID=$1; SRC=$2
W=/tmp/confirm_$ID
OUT=/verif/seeded/$ID
git -C /repo worktree remove --force $W 2>/dev/null
git -C /repo worktree add -q $W HEAD || exit 2
cd $W || exit 2
PYTHONPATH=$W /venv/bin/python $SRC/demo.py > /tmp/confirm_$ID.clean.log 2>&1; RC_CLEAN=$?
git apply $SRC/patch.diff || { echo "patch does not apply"; git -C /repo worktree remove --force $W; exit 3; }
PYTHONPATH=$W /venv/bin/python $SRC/demo.py > /tmp/confirm_$ID.patched.log 2>&1; RC_PATCHED=$?
PYTHONPATH=$W /venv/bin/python -m pytest -q -p no:cacheprovider --timeout=900 tests 2>&1 | tail -8 > /tmp/confirm_$ID.tests.log
SUMMARY=$(grep -E "passed|failed" /tmp/confirm_$ID.tests.log | tail -1)
FAILED=$(grep "^FAILED" /tmp/confirm_$ID.tests.log | grep -v "test_notebooks.py\|test_dataset_image" | wc -l)
mkdir -p $OUT
cp $SRC/patch.diff $SRC/demo.py $OUT/
[ -f $SRC/notes.md ] && cp $SRC/notes.md $OUT/
cat > $OUT/confirm.json <<JSON
{"id": "$ID", "repo_head": "$(git -C /repo log --format=%h -1)", "demo_exit_unchanged": $RC_CLEAN, "demo_exit_patched": $RC_PATCHED,
 "test_suite_with_patch": "$SUMMARY", "unexpected_test_failures": $FAILED,
 "demo_output_patched_tail": $(tail -3 /tmp/confirm_$ID.patched.log | python3 -c 'import json,sys; print(json.dumps(sys.stdin.read()[-600:]))')}
JSON
cat $OUT/confirm.json
cd /; git -C /repo worktree remove --force $W; rm -f /tmp/confirm_$ID.*.log
