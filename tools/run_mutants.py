#!/usr/bin/env python3
"""Run the hand-written sensitivity mutants of one or more properties (tools/mutants/<ID>.json) in parallel.

  tools/run_mutants.py C03 C07 [-j 4] [--tier quick] [--name substring]

Each mutant = {name, file, old, new, [count], [only]}: a textual replacement in a scratch copy of /repo/pandora.
Prints one line per mutant: DETECTED (exit 1) / MISSED (exit 0) / HARNESS-ERROR (exit 2)."""
import argparse
import json
import os
import subprocess
import sys
from concurrent.futures import ThreadPoolExecutor

VERIF = os.path.dirname(os.path.dirname(os.path.abspath(__file__)))


def run_one(prop, m, tier):
    cmd = [os.path.join(VERIF, "tools", "mut.py"), prop, m["file"], m["old"], m["new"], "--tier", tier,
           "--count", str(m.get("count", 1)), "--tail", "6"]
    for o in m.get("only", []):
        cmd += ["--only", o]
    env = dict(os.environ, VERIF_JOBS=os.environ.get("VERIF_JOBS_MUT", "6"))
    r = subprocess.run(cmd, capture_output=True, text=True, env=env)
    out = (r.stdout + r.stderr).strip().splitlines()
    verdict = next((l for l in reversed(out) if l.startswith("== exit")), "== ?")
    sig = next((l.strip() for l in out if l.strip().startswith("signature=")), "")
    return prop, m["name"], verdict, sig[:160], out


def main():
    ap = argparse.ArgumentParser()
    ap.add_argument("props", nargs="+")
    ap.add_argument("-j", type=int, default=4)
    ap.add_argument("--tier", default="quick")
    ap.add_argument("--name")
    ap.add_argument("-v", action="store_true")
    a = ap.parse_args()
    jobs = []
    for prop in a.props:
        with open(os.path.join(VERIF, "tools", "mutants", f"{prop}.json")) as f:
            for m in json.load(f):
                if a.name and a.name not in m["name"]:
                    continue
                jobs.append((prop, m))
    with ThreadPoolExecutor(max_workers=a.j) as ex:
        for prop, name, verdict, sig, out in ex.map(lambda pm: run_one(pm[0], pm[1], a.tier), jobs):
            print(f"{prop} {name:45s} {verdict} {sig}")
            if a.v or "MISSED" in verdict or "HARNESS" in verdict or "?" in verdict:
                print("    " + "\n    ".join(out[-8:]))
            sys.stdout.flush()


if __name__ == "__main__":
    main()
