#!/bin/sh
# tools/multiseed.sh <seed> [tier] : every check at VERIF_SEED=<seed>; prints one line per property (exit code)
SEED=$1; TIER=${2:-quick}
cd "$(dirname "$0")/.."
for i in 01 02 03 04 05 06 07 08 09 10 11 12 13 14 15 16 17 18 19 20; do
  VERIF_SEED=$SEED ./check C$i --tier $TIER > .work/multiseed_${SEED}_C$i.log 2>&1; rc=$?
  echo "seed=$SEED C$i rc=$rc $(grep -c VIOLATION .work/multiseed_${SEED}_C$i.log) $(tail -1 .work/multiseed_${SEED}_C$i.log | cut -c1-120)"
done
