#!/usr/bin/env python3
"""Regenerates /verif/MANIFEST.json from the table below (one entry per claimed property)."""
import json
import os

VERIF = os.path.dirname(os.path.dirname(os.path.abspath(__file__)))

BASELINE_OFF = ("cd /repo && env -u CNES_PANDORA_VERIF /venv/bin/python -m pytest -ra -q -p no:cacheprovider "
                "--timeout=900 --continue-on-collection-errors")

# id -> (technique, level text, level note, design ref)
CLAIMED = {
    "C18": (
        "Hypothesis stateful machine over interleaved check/run histories (hash invariant) plus sub-process differential over threading environments",
        "Exploration: (history) a RuleBasedStateMachine owns up to three machine objects over six pipelines that cover "
        "every prange kernel and every step class (incl. multiscale) and two same-shape input pairs; after each "
        "generated interleaving of new-machine / check / run operations every observation of a (pipeline, inputs) pair "
        "must hash (SHA-256 over all product variables, coordinates, attributes) to the same value and the caller's "
        "datasets must be deep-equal before and after each run; (environments) the same generated cases run in fresh "
        "sub-processes under NUMBA_NUM_THREADS 1..16 x {omp, workqueue} x chunk sizes {0,1,7} x parallel on/off, each "
        "repeated; products must be bit-identical across environments (with parallel off: disparity map and "
        "pre-validation flags).",
        "Trusted: SHA-256 of the product arrays. Limitation (DESIGN.md §8): the harness does not own numba's scheduler; "
        "a race confined to a rare prange interleaving can survive the sweep. Known finding "
        "C18/regularisation-flag-depends-on-parallel-switch is excluded and counted.",
        "DESIGN.md §5 C18, §8",
    ),
    "C04": (
        "Hypothesis-generated pairs and legal pipelines with per-step snapshots (invariant over the step history) vs. a three-zone reference of the flag causes",
        "Exploration: generated pairs with masks and no-data next to borders and partial-range zones, scalar intervals "
        "and grids, windows 1/3/5, invalid_disparity NaN / -9999, legal pipelines with repeated refinement / filter / "
        "validation (with filling), confidence steps and median_for_intervals. After every step harness-side wrappers "
        "snapshot flags, disparities and the all-NaN pattern on the left and (with validation) right side. Judged: "
        "each of bits 0,1,6 equals its documented cause, bits 2/7 by three-zone rules, no other bit after matching "
        "cost; invalid flag <=> all costs NaN <=> disparity is the invalid value, at every step before validation; "
        "borders carry bit 0 only; each later step changes only its own documented bits and clears none; never a "
        "bit >= 4096, never bits 8 and 9 together.",
        "Trusted: ref_bits() in pbt/props/c04.py (written from output.rst and the property). Bit 11 on border pixels "
        "after interval regularisation is tolerated (own bit of that step).",
        "DESIGN.md §5 C04",
    ),
    "C19": (
        "Round trip through the command-line entry: in-memory products -> written rasters -> read back; saved configuration -> replay (differential)",
        "Exploration: generated accepted configurations on harness-written GeoTIFFs (pipelines with/without "
        "validation, filling, confidence steps, invalid_disparity -9999 / NaN, integer interval or grid files, with or "
        "without CRS/transform) run through pandora.main in-process with a wrapper capturing the datasets handed to "
        "save_results; each written raster is read back and compared value for value (dtype, NaN, band names, "
        "georeferencing, right_* iff validation); cfg/config.json is loaded, compared with check_conf's completed "
        "configuration plus the machine's margins, fed back to pandora.main and must reproduce identical rasters.",
        "Trusted: rasterio read/write; check_conf on a fresh machine as the definition of 'completed configuration'. "
        "The undocumented 'indicator' key of confidence steps is not compared.",
        "DESIGN.md §5 C19",
    ),
    "C16": (
        "Hypothesis-generated GeoTIFFs read through create_dataset_from_inputs vs. a direct restatement (round trip file -> dataset); exhaustive ROI table vs. isel crop (differential)",
        "Exploration with an exhaustive sub-space: generated rasters (1-3 named bands, six dtypes, nodata present / "
        "absent / NaN / +-inf / omitted, mask rasters with negative and large values, list or grid disparities, "
        "classif / segm, with and without georeferencing, optional ROI) are written by the harness and the dataset "
        "read back is compared sample for sample with the statement (float32 samples, -9999 replacement, no-data / "
        "invalid / valid mask semantics and mask presence, band names, disparity, classif / segm, attributes, "
        "coordinates). Every (first,last) x margins ROI on a 6x7 raster, incl. touching and outside windows, must "
        "equal the isel crop of the full read (coordinates included) or be refused when it misses the image.",
        "Trusted: rasterio for writing the files, the restatement in pbt/props/c16.py. A multiband pixel counts as "
        "no-data when any band equals the nodata value.",
        "DESIGN.md §5 C16",
    ),
    "C17": (
        "Fault-sequence enumeration: well-formed dataset pairs / input sections x every single and pair of contract violations (exhaustive), plus random larger sets",
        "Exploration with exhaustive sub-spaces: four base classes of well-formed dataset pairs (mono, multiband+mask, "
        "grids+classif+segm+ROI coordinates, NaN pixels+right disparity) x all singles and pairs of 19 dataset "
        "violations through check_datasets; four base input sections on real GeoTIFFs x all singles and pairs of 19 "
        "input violations through check_input_section and check_conf (with a spy proving that run_prepare never "
        "started); Hypothesis adds random seeds and violation sets of size 0-3. Oracle: accepted iff the (effective) "
        "violation set is empty.",
        "Trusted: the violation appliers in pbt/props/c17.py (each is one edit of a well-formed object); violations "
        "masked by another one of the same set are recomputed before judging.",
        "DESIGN.md §5 C17",
    ),
    "C05": (
        "Exhaustive parameter table (every parameter x must-accept / must-reject / absent) plus Hypothesis-generated combined configurations vs. a documented-contract reference",
        "Exploration with an exhaustive sub-space: each of the 35 parameters of the built-in methods takes every listed "
        "in-domain value, every listed out-of-domain / wrong-type value and 'absent', one at a time inside a legal "
        "pipeline; generated pipelines set, omit or break several parameters at once on mono- and multiband metadata "
        "(band rules); generated input sections on real GeoTIFFs go through check_configuration.check_conf. Judged: "
        "accept iff every value is in its documented domain; rejection raised by the checking call before any "
        "processing callback runs; user keys keep value and relative position; listed defaults; user dictionary "
        "deep-equal to its copy; re-checking the result returns it unchanged.",
        "Trusted: pbt/ref/params.py (domains and defaults from the property text and the user guide); values the "
        "documentation leaves open are never generated as judged values.",
        "DESIGN.md §5 C05",
    ),
    "C20": (
        "Exhaustive enumeration of legal step sequences x parameter grid, plus Hypothesis pipelines, vs. a restated margin function; metamorphic monotonicity",
        "Exploration with an exhaustive sub-space: every DFA-legal sequence of step kinds up to length 5 (quick) / 6 "
        "(thorough) on a grid of window and filter parameters, generated pipelines with suffixes / windows 1-11 / "
        "filter sizes 1-9 / sigma_space 0.3-20 / image shapes 8x8..200x300, and filter classes built with step 1-3, "
        "are checked on fresh machines; margins.to_dict() must list exactly the margin-bearing steps under their "
        "configured names with the documented values, the global margins must be the per-side max of the cumulative "
        "sum and each non-cumulative entry, be non-negative, be unchanged by the right/left round of a validation step "
        "and never decrease when a step is inserted.",
        "Trusted: expected_margins() in pbt/props/c20.py (restated from the property text). The 'stored under margins "
        "in the saved configuration' clause is decided by C19.",
        "DESIGN.md §5 C20",
    ),
    "C01": (
        "Exhaustive enumeration of step sequences vs. the documented DFA; Hypothesis-generated pipelines and check/run histories vs. a run-trace model",
        "Exploration with an exhaustive sub-space: every sequence of the ten step kinds up to length 4 (quick) / 5 "
        "(thorough), in two suffix styles, is submitted to PandoraMachine.check_conf with valid parameters and compared "
        "with the three-state automaton (acceptance, sequencing error, machine back in 'begin' with no transitions, "
        "second check identical). Generated legal pipelines (random parameters, suffixes, stub plugins, 1-3 scales) are "
        "checked and run along generated histories of check/run calls on one machine; the recorded execution trace "
        "(step, scale) must equal the model trace, products must exist on the documented sides, repeated operations "
        "must behave identically, and single-edit mutants that leave the automaton must be rejected with a sequencing "
        "error before anything runs.",
        "Trusted: pbt/ref/automaton.py (three states, ten transitions, from sequencing.rst) and the trace model in "
        "pbt/props/c01.py. Plugin steps are exercised through identity stubs.",
        "DESIGN.md §5 C01",
    ),
    "C15": (
        "Hypothesis-generated pairs and pipelines around a multiscale step; harness-side observation of every step vs. coarse-to-fine reference rule",
        "Exploration: generated pairs (mono/multiband, masks), num_scales 2-3, scale_factor 2-3, marge 0-2, divisible "
        "and non-divisible intervals and legal pipelines around the multiscale step are run through pandora.run while "
        "wrappers record, per executed step, the scale, the image size, the interval grids handed to the matching cost "
        "(left and right) and the disparity map entering the multiscale step. Checked: executions per scale for every "
        "step, sizes per level, coarsest interval, the per-pixel fine-interval rule (exists a coarse pixel within 1 of "
        "the parent whose rule value matches), output sizes, right products, input datasets deep-equal before/after.",
        "Trusted: reference in pbt/props/c15.py; floor/ceil admissible for sizes and the coarsest axis.",
        "DESIGN.md §5 C15",
    ),
    "C13": (
        "Metamorphic relations between runs of the real pipeline (crop/tile vs. whole image, vertical flip), exact comparison",
        "Exploration: generated pairs (tile-constructed 30-60 x 70-130, integer radiometry, masks), local pipelines "
        "and crop rectangles with arbitrary odd/even offsets (absolute ROI-style coordinates); every pixel whose "
        "conservative dependency cone lies inside the crop must get bit-identical disparity and flags (left and right "
        "products) from the crop run and the full run; flipping both images vertically must flip the outputs.",
        "Trusted: the conservative cone radii computed by the harness (larger than the true cone: fewer pixels compared, "
        "never a false alarm). zncc+cbca is not generated (float32 prefix sums of non-integer costs are not "
        "associative); the flip relation is not asserted with bilateral filtering.",
        "DESIGN.md §5 C13",
    ),
    "C09": (
        "Metamorphic relations between runs of the real code (nested intervals, grids vs. scalar), plus range invariant observed per step",
        "Exploration: (nested) the volume computed for [a,b] must equal, bit for bit, the slice of the volume for a "
        "larger [A,B], after matching cost and after cbca; (grids) per-pixel grids must give the scalar run's costs "
        "inside each pixel's interval and NaN outside, constant grids must reproduce the scalar run on every product "
        "of a whole legal pipeline; (range) harness-side wrappers observe every step of generated legal pipelines: "
        "valid disparities inside their own interval right after disparity / refinement, inside the global interval at "
        "the end (left and right), disparity_interval equal to the interval searched.",
        "Trusted: harness builders only (both sides are the real code). Known finding "
        "C09/refinement-of-off-sample-disparity-leaves-interval (bounded by half a sample) is excluded and counted. "
        "cbca with non-constant grids is deliberately not compared with the scalar run.",
        "DESIGN.md §5 C09",
    ),
    "C08": (
        "Metamorphic relation between two runs of the real pipeline (mirrored stereo problem), exact comparison",
        "Exploration: generated pairs, intervals and legal pipelines with a validation step (filling, confidence "
        "steps, cbca, refinement, filters before/after, repeated validation) are run as (L,R,[a,b]) and as "
        "(R,L,[-b,-a]); right(A) must equal left(B) and left(A) equal right(B) on every product variable and band "
        "name, bit for bit. Pipelines without validation must return an empty right dataset, and appending a "
        "cross-check as last step must leave the left disparity map identical and change only bits 8/9.",
        "Trusted: nothing but the harness dataset builders; both sides of the relation are the real code.",
        "DESIGN.md §5 C08",
    ),
    "C02": (
        "Hypothesis-generated image pairs vs. naive per-pixel matching-cost reference model",
        "Exploration: the matching-cost step is run through the machine on generated pairs (mono/multiband, masks with "
        "no-data and invalid pixels on either side, user mask convention, scalar intervals and per-pixel grids, four "
        "measures, windows 1-7, subpix 1/2/4) and the whole volume is compared cell by cell with a loop-per-pixel "
        "reference: values exact for sad/ssd/census, 1e-5 for zncc, NaN pattern exact, disparity axis, type of "
        "measure, |cost| <= cmax.",
        "Trusted: pbt/ref/matching.py; integer radiometry (exact float32 sums, exact order-1 zoom). Intervals larger than "
        "the image overlap are a separate class (known finding C02/disparity-beyond-image-overlap-raises, excluded "
        "and counted).",
        "DESIGN.md §5 C02",
    ),
    "C12": (
        "Hypothesis-generated cost volumes vs. bracketing reference models; pipeline with/without confidence steps (differential)",
        "Exploration: (a) the four confidence classes are called on generated volumes (NaN holes, ties, min/max, eta and "
        "threshold grids incl. 0 and 1, pre-existing bands, suffixes, regularisation) and judged on band bookkeeping, "
        "untouched cost volume / old bands, std of the left window, ambiguity count / risk_max / risk_min inside "
        "brackets computed with eta +- 1e-6, 0 <= risk_min <= risk_max, interval bounds equal to the re-stated rule "
        "and bracketing the winner, regularisation with quantile 1 only widening; (b) legal pipelines with 1-4 stacked "
        "confidence steps are compared exactly with the same pipeline without them (disparity, flags, cost volume) and "
        "on band order.",
        "Trusted: references in pbt/props/c12.py. For 'max' measures only structural clauses of ambiguity/risk are "
        "judged. Known finding C12/normalised-ambiguity-nan-on-constant-map is excluded by construction and counted.",
        "DESIGN.md §5 C12",
    ),
    "C11": (
        "Hypothesis-generated image pairs and cost volumes vs. naive region-enumeration reference (differential)",
        "Exploration: generated mono-band pairs (masks, no-data, user mask convention), integer cost volumes with NaN "
        "cells, integer and sub-pixel planes, window offsets 0-2, cbca_distance 1-6 and four intensities are aggregated "
        "by the real step and by a per-pixel enumeration of the combined support region; values (1e-5 relative), the "
        "NaN pattern, plane independence and untouched inputs are compared.",
        "Trusted: pbt/ref/cbca.py (arms shorter than cbca_distance, the convention of the repository's unit tests); "
        "costs with an outside correspondent are NaN on input; images at least 3x3.",
        "DESIGN.md §5 C11",
    ),
    "C06": (
        "Hypothesis-generated cost volumes / disparity maps and captured pipeline states vs. per-pixel V-fit / parabola reference",
        "Exploration: (a) direct calls on generated volumes and maps (winner samples, other samples, off-sample values, "
        "NaN holes, flat and tied triples, pre-set bit 3, min/max, subpix 1/2/4); (b) the state received by every "
        "refinement step of generated legal pipelines (after filters, after a previous refinement) captured by "
        "harness-side wrappers. Each valid on-sample pixel is compared with an independent derivation of the fit "
        "(shift, half-sample bound, fitted cost, never worse), stop conditions and bit 3, invalid pixels untouched, "
        "no exception.",
        "Trusted: reference in pbt/props/c06.py (1e-5 relative tolerance, float32 storage). Off-sample received "
        "disparities and NaN centre costs are judged on the weak clauses only (counted as unspecified).",
        "DESIGN.md §5 C06",
    ),
    "C03": (
        "Hypothesis-generated cost volumes vs. plane-by-plane first-strictly-better scan (reference model)",
        "Exploration: generated cost-volume datasets (tiny shapes and tile-constructed shapes straddling the 100-pixel "
        "blocks, ties, NaN cells, all-NaN pixels, min/max measures, any invalid_disparity incl. NaN) are run through "
        "WinnerTakesAll.to_disp and compared exactly with a reference that keeps the first strictly better cost; the "
        "cost volume, flags, confidence bands and disparity_interval are compared too.",
        "Trusted: reference in pbt/props/c03.py, numpy comparisons. Costs are finite float32 or NaN (no +-inf).",
        "DESIGN.md §5 C03",
    ),
    "C10": (
        "Hypothesis-generated disparity datasets vs. loop-per-pixel median / bilateral reference models",
        "Exploration: generated disparity maps (invalid pixels anywhere, sizes around the 50/100-pixel block boundaries, "
        "odd filter sizes, sigma pairs) filtered by median, bilateral and median_for_intervals and compared per pixel "
        "with explicit-window references (median to 1e-6, bilateral to 1e-5 relative), plus mask / invalid-pixel / "
        "edge-pixel / other-variables-untouched clauses.",
        "Trusted: references in pbt/props/c10.py. Even-width bilateral windows and regularised interval bands are "
        "judged on the weak clauses only (counted as unspecified).",
        "DESIGN.md §5 C10",
    ),
    "C14": (
        "Hypothesis-generated post-cross-check maps vs. validity predicate (flag exchange, finiteness, range, nearest-valid rule)",
        "Exploration: generated layouts of valid / invalid / occluded / mismatched pixels (incl. maps, rows and "
        "columns without any valid pixel) are filled by both methods and judged by a predicate: unflagged pixels "
        "bit-identical, 8->4 / 9->5 exchange (sgm 9->8 next to an occlusion), finite value inside the valid range, "
        "must-fill when a valid pixel is visible along a principal direction, must-stay-flagged when the map has no "
        "valid pixel, exact nearest-valid value for the mc-cnn occlusion rule.",
        "Trusted: predicate in pbt/props/c14.py. Between must-fill and must-stay-flagged only flag/finiteness/range "
        "clauses are judged.",
        "DESIGN.md §5 C14",
    ),
    "C07": (
        "Hypothesis-generated disparity-map pairs vs. per-pixel reference model (three-zone oracle)",
        "Exploration: thousands of generated left/right disparity datasets (masks, NaN/-9999 invalids, fractional and "
        "half-integer disparities, offsets, thresholds, intervals of either sign) are judged pixel by pixel by a "
        "loop-per-pixel restatement of the cross-checking rule; every flag, the untouched bits, the unmodified maps and "
        "the confidence band are compared. Held on N cases is the claim; no proof of absence.",
        "Trusted: the reference model in pbt/props/c07.py (written from the property text), numpy float32/float64 "
        "arithmetic, Hypothesis. Unspecified corners (exact half-integer correspondents, sums within 1e-5 of the "
        "threshold, flag kind for outside correspondents) are counted, not judged.",
        "DESIGN.md §5 C07",
    ),
}

NOT_YET = "check not built yet in this round (planned, see DESIGN.md §5); not claimed until it exists"


def main():
    with open(os.path.join(VERIF, "properties.jsonl")) as f:
        props = [json.loads(l) for l in f if l.strip()]
    checks = []
    na = []
    for p in props:
        pid = p["id"]
        if pid in CLAIMED:
            tech, text, note, ref = CLAIMED[pid]
            checks.append({
                "property_id": pid,
                "quick_cmd": f"./check {pid} --tier quick",
                "thorough_cmd": f"./check {pid} --tier thorough",
                "evidence_file": f"evidence/{pid}.json",
                "replay_cmd_template": f"./check {pid} --replay {{path}}",
                "engine": "pbt",
                "level_claimed": {"category": "exploration", "text": text, "design_ref": ref},
                "level_note": note,
                "technique": tech,
            })
        else:
            na.append({"property_id": pid, "reason": NOT_YET})
    manifest = {
        "version": 1,
        "setup_cmd": "./setup.sh",
        "hooks": {
            "guard": "CNES_PANDORA_VERIF",
            "enable": "none needed: all observation is harness-side (wrappers around public PandoraMachine callbacks and "
                      "plugin registration); the checks export CNES_PANDORA_VERIF=1 but no source in /repo reads it",
            "baseline_off_cmd": BASELINE_OFF,
            "source_commits": [],
            "add_only": True,
        },
        "engines": [{
            "name": "pbt",
            "path": "pbt/",
            "serves_properties": [c["property_id"] for c in checks],
            "kind_free_text": "Hypothesis 6.168 property-based testing (composite strategies, stateful machines) plus "
                              "exhaustive enumeration of small finite sub-spaces; explicit reference-model / "
                              "metamorphic / differential oracles; sharded over 16 worker processes",
        }],
        "checks": checks,
        "not_applicable": na,
        "notes": "Known/fixed findings: known_findings.json. Replays are written to replays/<ID>/ at run time. "
                 "VERIF_SEED selects the Hypothesis seed; VERIF_JOBS the number of worker processes (default 16).",
    }
    with open(os.path.join(VERIF, "MANIFEST.json"), "w") as f:
        json.dump(manifest, f, indent=1)
    print(f"claimed {len(checks)}, not yet {len(na)}")


if __name__ == "__main__":
    main()
