#!/usr/bin/env python3
"""Run checks against the independently seeded changes kept under /verif/seeded/<name>/.

  tools/seeded.py run [name ...] [--tier quick] [--checks C01,C05] [-j 3]
      for each seeded change: copy /repo/pandora to a scratch tree, apply patch.diff, run the named checks (default: the
      property the change targets, from meta.json), print DETECTED / MISSED per check, delete the scratch tree.
  tools/seeded.py demo name
      run the change's own demonstration against /repo (must pass) and against the patched scratch tree (must fail).

Results are appended to seeded/RESULTS.jsonl (one line per (change, check, tier))."""
import argparse
import json
import os
import shutil
import subprocess
import sys
import time
from concurrent.futures import ThreadPoolExecutor

VERIF = os.path.dirname(os.path.dirname(os.path.abspath(__file__)))
SEEDED = os.path.join(VERIF, "seeded")


def scratch(name):
    dst = f"/tmp/pandora_seed_{name}_{os.getpid()}"
    shutil.rmtree(dst, ignore_errors=True)
    os.makedirs(dst)
    subprocess.run(["rsync", "-a", "--exclude", "__pycache__", "/repo/pandora", dst + "/"], check=True)
    r = subprocess.run(["patch", "-p1", "-d", dst, "-i", os.path.join(SEEDED, name, "patch.diff")], capture_output=True, text=True)
    if r.returncode != 0:
        shutil.rmtree(dst, ignore_errors=True)
        raise RuntimeError(f"{name}: patch does not apply to the current /repo:\n{r.stdout}{r.stderr}")
    return dst


def cleanup(dst):
    sys.path.insert(0, VERIF)
    try:
        from pbt import env as _env

        h = _env.tree_hash(dst)
        ref = os.path.join(VERIF, ".work", "c18ref")
        for d in os.listdir(ref) if os.path.isdir(ref) else []:
            if d.startswith(h) and h != _env.tree_hash("/repo"):
                shutil.rmtree(os.path.join(ref, d), ignore_errors=True)
        root = os.path.join(VERIF, ".cache", "numba")
        if h != _env.tree_hash("/repo"):
            for d in os.listdir(root) if os.path.isdir(root) else []:
                if d.startswith(h):
                    shutil.rmtree(os.path.join(root, d), ignore_errors=True)
    finally:
        shutil.rmtree(dst, ignore_errors=True)


def run_one(name, checks, tier):
    meta = json.load(open(os.path.join(SEEDED, name, "meta.json")))
    checks = checks or [meta["property"]]
    dst = scratch(name)
    out = []
    try:
        for chk in checks:
            t0 = time.time()
            env = dict(os.environ, VERIF_REPO=dst, VERIF_JOBS=os.environ.get("VERIF_JOBS_MUT", "8"))
            r = subprocess.run([os.path.join(VERIF, "check"), chk, "--tier", tier], env=env, capture_output=True, text=True)
            lines = (r.stdout + r.stderr).splitlines()
            sig = next((l.strip() for l in lines if l.strip().startswith("signature=")), "")
            verdict = {0: "MISSED", 1: "DETECTED"}.get(r.returncode, "HARNESS-ERROR")
            rec = {"change": name, "targets": meta["property"], "check": chk, "tier": tier, "verdict": verdict,
                   "signature": sig[:200], "wall_s": round(time.time() - t0, 1)}
            out.append(rec)
            print(f"{name:28s} {chk} {tier:8s} {verdict:13s} {sig[:140]}")
            if verdict == "HARNESS-ERROR":
                print("    " + "\n    ".join(lines[-8:]))
            sys.stdout.flush()
    finally:
        cleanup(dst)
    with open(os.path.join(SEEDED, "RESULTS.jsonl"), "a") as f:
        for rec in out:
            f.write(json.dumps(rec) + "\n")
    return out


def demo(name):
    d = os.path.join(SEEDED, name)
    demo_py = os.path.join(d, "demo.py")
    for label, tree, want in (("unchanged /repo", "/repo", 0), ("patched", None, 1)):
        dst = scratch(name) if tree is None else None
        try:
            env = dict(os.environ, PYTHONPATH=(dst or tree))
            r = subprocess.run(["/venv/bin/python", demo_py], env=env, capture_output=True, text=True, cwd=d)
            ok = (r.returncode == 0) == (want == 0)
            print(f"{name}: demo on {label}: exit {r.returncode} ({'as expected' if ok else 'UNEXPECTED'})")
            if not ok:
                print((r.stdout + r.stderr)[-1500:])
        finally:
            if dst:
                cleanup(dst)


def main():
    ap = argparse.ArgumentParser()
    ap.add_argument("cmd", choices=["run", "demo"])
    ap.add_argument("names", nargs="*")
    ap.add_argument("--tier", default="quick")
    ap.add_argument("--checks")
    ap.add_argument("-j", type=int, default=3)
    a = ap.parse_args()
    names = a.names or sorted(n for n in os.listdir(SEEDED) if os.path.isdir(os.path.join(SEEDED, n)))
    if a.cmd == "demo":
        for n in names:
            demo(n)
        return
    checks = a.checks.split(",") if a.checks else None
    with ThreadPoolExecutor(max_workers=a.j) as ex:
        list(ex.map(lambda n: run_one(n, checks, a.tier), names))


if __name__ == "__main__":
    main()
