#!/bin/sh
# run every claimed check (quick tier by default) against /repo, sequentially; prints one summary line per property
cd "$(dirname "$0")/.." || exit 2
TIER=${1:-quick}
for id in $(python3 -c "import json;print(' '.join(c['property_id'] for c in json.load(open('MANIFEST.json'))['checks']))"); do
  out=$(./check "$id" --tier "$TIER" 2>&1); rc=$?
  echo "$out" | grep -E "^(VIOLATION|KNOWN-FINDING)" | cut -c1-160
  echo "$out" | tail -1; [ $rc -ne 0 ] && echo "  !! $id rc=$rc"
done
