#!/usr/bin/env python3
"""Regenerates seeded/README.md from seeded/*/meta.json and seeded/RESULTS.jsonl (latest verdict per change x check x tier)."""
import json, os
VERIF = os.path.dirname(os.path.dirname(os.path.abspath(__file__)))
S = os.path.join(VERIF, "seeded")
res = {}
p = os.path.join(S, "RESULTS.jsonl")
if os.path.exists(p):
    for l in open(p):
        r = json.loads(l)
        res[(r["change"], r["check"], r["tier"])] = r
out = ["# Independently seeded changes\n",
       "Each directory holds a change to CNES/Pandora written by a fresh sub-agent that saw only the text of one property and a "
       "scratch worktree (nothing from /verif): `patch.diff`, the agent's own `demo.py` (passes on the unchanged tree, fails with "
       "the patch), `notes.md`, `confirm.json` (my own confirmation: demo on a fresh worktree with and without the patch, full "
       "repository test suite with the patch = the 5 baseline failures only) and `meta.json`. None of them is ever applied to /repo; "
       "`tools/seeded.py run` applies each to a scratch copy, runs the checks, and deletes the copy.\n",
       "| change | breaks | needs to manifest | checks run (tier): verdict |", "|---|---|---|---|"]
for name in sorted(os.listdir(S)):
    mp = os.path.join(S, name, "meta.json")
    if not os.path.exists(mp):
        continue
    m = json.load(open(mp))
    rs = sorted((k, v) for k, v in res.items() if k[0] == name)
    cell = "; ".join(f"{k[1]} ({k[2]}): **{v['verdict']}**" + (f" `{v['signature'].split(' ')[0].replace('signature=', '')}`" if v["verdict"] == "DETECTED" else "") for k, v in rs)
    if m.get("status_on_current_tree"):
        cell += " — " + m["status_on_current_tree"]
    out.append(f"| {name} | {m['change']} | {m['needs_to_manifest']} | {cell} |")
open(os.path.join(S, "README.md"), "w").write("\n".join(out) + "\n")
print("written", len(out) - 4, "rows")
