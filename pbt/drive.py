"""Driving Pandora at API level, the way `pandora.main` and the notebooks do."""
from __future__ import annotations

import contextlib
import copy
from dataclasses import dataclass, field
from typing import Any, Dict, List, Optional

import numpy as np
import xarray as xr

from . import build


@dataclass
class Result:
    machine: Any
    left: xr.Dataset
    right: xr.Dataset
    cfg: dict
    img_left: xr.Dataset
    img_right: xr.Dataset
    trace: List[tuple] = field(default_factory=list)


def make_inputs(left, right, disp, msk_left=None, msk_right=None, right_disp=None, bands=None, valid=0, nodata=1,
                row0=0, col0=0, right_bands=None, valid_right=None, nodata_right=None):
    """each dataset announces its own mask convention: (valid_right, nodata_right) default to the left one"""
    l = build.image_dataset(left, msk_left, disp, valid, nodata, bands, row0, col0)
    r = build.image_dataset(right, msk_right, right_disp, valid if valid_right is None else valid_right,
                            nodata if nodata_right is None else nodata_right, right_bands or bands, row0, col0)
    return l, r


def check_pipeline(machine, pipeline: dict, img_left: xr.Dataset, img_right: xr.Dataset) -> dict:
    """`check_pipeline_section` on the metadata of the two datasets -> completed {"pipeline": ...}"""
    from pandora.check_configuration import check_pipeline_section

    return check_pipeline_section(
        {"pipeline": copy.deepcopy(pipeline)}, build.metadata_dataset(img_left), build.metadata_dataset(img_right), machine
    )


def run_checked(machine, img_left, img_right, checked: dict):
    import pandora

    cfg = {"input": {}, "pipeline": checked["pipeline"]}
    return pandora.run(machine, img_left, img_right, cfg)


def run_pipeline(left, right, pipeline: dict, disp, msk_left=None, msk_right=None, right_disp=None, bands=None,
                 valid=0, nodata=1, machine=None, row0=0, col0=0, spy=None, right_bands=None, valid_right=None,
                 nodata_right=None) -> Result:
    from pandora.state_machine import PandoraMachine

    l, r = make_inputs(left, right, disp, msk_left, msk_right, right_disp, bands, valid, nodata, row0, col0, right_bands,
                       valid_right, nodata_right)
    m = machine or PandoraMachine()
    checked = check_pipeline(m, pipeline, l, r)
    if spy is not None:
        with spy:
            lo, ro = run_checked(m, l, r, checked)
    else:
        lo, ro = run_checked(m, l, r, checked)
    return Result(m, lo, ro, checked, l, r)


# ----------------------------------------------------------------------------------------------------------------
# observation (harness side; nothing in /repo is touched)
# ----------------------------------------------------------------------------------------------------------------
STEP_RUN_CALLBACKS = {
    "matching_cost": "matching_cost_run",
    "aggregation": "aggregation_run",
    "semantic_segmentation": "semantic_segmentation_run",
    "optimization": "optimization_run",
    "disparity": "disparity_run",
    "filter": "filter_run",
    "refinement": "refinement_run",
    "validation": "validation_run",
    "multiscale": "run_multiscale",
    "cost_volume_confidence": "cost_volume_confidence_run",
}


class Spy(contextlib.AbstractContextManager):
    """Wraps the `<step>_run` callbacks of PandoraMachine (class level, restored on exit).  `events` receives
    (callback name, configured step name, scale, image shape); `after` (optional) is called with
    (machine, step name, callback name) after each step so that checks can snapshot intermediate products."""

    def __init__(self, after=None, before=None):
        self.events: List[tuple] = []
        self.after = after
        self.before = before
        self._saved: Dict[str, Any] = {}

    def __enter__(self):
        from pandora.state_machine import PandoraMachine

        for kind, name in STEP_RUN_CALLBACKS.items():
            orig = getattr(PandoraMachine, name)
            self._saved[name] = orig

            def make(orig=orig, name=name, kind=kind):
                def wrapper(machine, cfg, input_step):
                    shape = (int(machine.left_img.sizes["row"]), int(machine.left_img.sizes["col"]))
                    self.events.append((kind, input_step, machine.current_scale, shape))
                    if self.before is not None:
                        self.before(machine, input_step, kind)
                    res = orig(machine, cfg, input_step)
                    if self.after is not None:
                        self.after(machine, input_step, kind)
                    return res

                return wrapper

            setattr(PandoraMachine, name, make())
        return self

    def __exit__(self, *exc):
        from pandora.state_machine import PandoraMachine

        for name, orig in self._saved.items():
            setattr(PandoraMachine, name, orig)
        self._saved.clear()
        return False


class DeepSpy(Spy):
    """Spy that also wraps the processing methods of every registered plugin class and records, per step callback,
    on which side (L = the machine's left objects, R = its right objects) each method was applied.
    `calls` = list of (configured step name, scale, method name, side)."""

    TARGETS = [
        ("matching_cost", "AbstractMatchingCost", "matching_cost_methods_avail", "compute_cost_volume", "img0"),
        ("aggregation", "AbstractAggregation", "aggreg_methods_avail", "cost_volume_aggregation", "img0"),
        ("optimization", "AbstractOptimization", "optimization_methods_avail", "optimize_cv", "cv0"),
        ("semantic_segmentation", "AbstractSemanticSegmentation", "segmentation_methods_avail", "compute_semantic_segmentation", "cv0"),
        ("cost_volume_confidence", "AbstractCostVolumeConfidence", "confidence_methods_avail", "confidence_prediction", "cv3"),
        ("disparity", "AbstractDisparity", "disparity_methods_avail", "to_disp", "cv0"),
        ("filter", "AbstractFilter", "filter_methods_avail", "filter_disparity", "disp0"),
        ("refinement", "AbstractRefinement", "subpixel_methods_avail", "subpixel_refinement", "disp1"),
        ("validation", "AbstractValidation", "validation_methods_avail", "disparity_checking", "disp0"),
        ("validation", "AbstractInterpolation", "interpolation_methods_avail", "interpolated_disparity", "disp0"),
        ("multiscale", "AbstractMultiscale", "multiscale_methods_avail", "disparity_range", "disp0"),
    ]

    def __init__(self, after=None, before=None):
        super().__init__(after=self._after, before=self._before)
        self._user_after, self._user_before = after, before
        self.calls: List[tuple] = []
        self._cur = None
        self._deep_saved = []

    def _before(self, machine, step, kind):
        self._cur = (machine, step, machine.current_scale)
        if self._user_before:
            self._user_before(machine, step, kind)

    def _after(self, machine, step, kind):
        if self._user_after:
            self._user_after(machine, step, kind)
        self._cur = None

    def _side(self, how, args):
        machine = self._cur[0]
        kind, idx = how[:-1], int(how[-1])
        obj = args[idx] if idx < len(args) else None
        if kind == "img":
            return "L" if obj is machine.left_img else ("R" if obj is machine.right_img else "?")
        if kind == "cv":
            return "L" if obj is machine.left_cv else ("R" if obj is machine.right_cv else "?")
        return "L" if obj is machine.left_disparity else ("R" if obj is machine.right_disparity else "?")

    def __enter__(self):
        super().__enter__()
        import pandora
        from pandora import (aggregation, cost_volume_confidence, disparity, filter as pfilter, matching_cost, multiscale,
                             optimization, refinement, semantic_segmentation, validation)

        mods = {"AbstractMatchingCost": matching_cost, "AbstractAggregation": aggregation, "AbstractOptimization": optimization,
                "AbstractSemanticSegmentation": semantic_segmentation, "AbstractCostVolumeConfidence": cost_volume_confidence,
                "AbstractDisparity": disparity, "AbstractFilter": pfilter, "AbstractRefinement": refinement,
                "AbstractValidation": validation, "AbstractInterpolation": validation, "AbstractMultiscale": multiscale}
        seen = set()
        for kind, absname, registry, meth, how in self.TARGETS:
            abscls = getattr(mods[absname], absname)
            for concrete in set(getattr(abscls, registry).values()):
                # the method may be inherited (e.g. subpixel_refinement lives in the abstract class)
                cls = next((c for c in concrete.__mro__ if meth in c.__dict__), None)
                if cls is None or (cls, meth) in seen:
                    continue
                seen.add((cls, meth))
                orig = cls.__dict__[meth]

                def make(orig=orig, meth=meth, how=how):
                    def wrapper(obj, *args, **kwargs):
                        if self._cur is not None:
                            self.calls.append((self._cur[1], self._cur[2], meth, self._side(how, args)))
                        return orig(obj, *args, **kwargs)

                    return wrapper

                self._deep_saved.append((cls, meth, orig))
                setattr(cls, meth, make())
        return self

    def __exit__(self, *exc):
        for cls, meth, orig in self._deep_saved:
            setattr(cls, meth, orig)
        self._deep_saved.clear()
        return super().__exit__(*exc)
