"""Driving Pandora at API level, the way `pandora.main` and the notebooks do."""
from __future__ import annotations

import contextlib
import copy
from dataclasses import dataclass, field
from typing import Any, Dict, List, Optional

import numpy as np
import xarray as xr

from . import build


@dataclass
class Result:
    machine: Any
    left: xr.Dataset
    right: xr.Dataset
    cfg: dict
    img_left: xr.Dataset
    img_right: xr.Dataset
    trace: List[tuple] = field(default_factory=list)


def make_inputs(left, right, disp, msk_left=None, msk_right=None, right_disp=None, bands=None, valid=0, nodata=1,
                row0=0, col0=0):
    l = build.image_dataset(left, msk_left, disp, valid, nodata, bands, row0, col0)
    r = build.image_dataset(right, msk_right, right_disp, valid, nodata, bands, row0, col0)
    return l, r


def check_pipeline(machine, pipeline: dict, img_left: xr.Dataset, img_right: xr.Dataset) -> dict:
    """`check_pipeline_section` on the metadata of the two datasets -> completed {"pipeline": ...}"""
    from pandora.check_configuration import check_pipeline_section

    return check_pipeline_section(
        {"pipeline": copy.deepcopy(pipeline)}, build.metadata_dataset(img_left), build.metadata_dataset(img_right), machine
    )


def run_checked(machine, img_left, img_right, checked: dict):
    import pandora

    cfg = {"input": {}, "pipeline": checked["pipeline"]}
    return pandora.run(machine, img_left, img_right, cfg)


def run_pipeline(left, right, pipeline: dict, disp, msk_left=None, msk_right=None, right_disp=None, bands=None,
                 valid=0, nodata=1, machine=None, row0=0, col0=0, spy=None) -> Result:
    from pandora.state_machine import PandoraMachine

    l, r = make_inputs(left, right, disp, msk_left, msk_right, right_disp, bands, valid, nodata, row0, col0)
    m = machine or PandoraMachine()
    checked = check_pipeline(m, pipeline, l, r)
    if spy is not None:
        with spy:
            lo, ro = run_checked(m, l, r, checked)
    else:
        lo, ro = run_checked(m, l, r, checked)
    return Result(m, lo, ro, checked, l, r)


# ----------------------------------------------------------------------------------------------------------------
# observation (harness side; nothing in /repo is touched)
# ----------------------------------------------------------------------------------------------------------------
STEP_RUN_CALLBACKS = {
    "matching_cost": "matching_cost_run",
    "aggregation": "aggregation_run",
    "semantic_segmentation": "semantic_segmentation_run",
    "optimization": "optimization_run",
    "disparity": "disparity_run",
    "filter": "filter_run",
    "refinement": "refinement_run",
    "validation": "validation_run",
    "multiscale": "run_multiscale",
    "cost_volume_confidence": "cost_volume_confidence_run",
}


class Spy(contextlib.AbstractContextManager):
    """Wraps the `<step>_run` callbacks of PandoraMachine (class level, restored on exit).  `events` receives
    (callback name, configured step name, scale, image shape); `after` (optional) is called with
    (machine, step name, callback name) after each step so that checks can snapshot intermediate products."""

    def __init__(self, after=None, before=None):
        self.events: List[tuple] = []
        self.after = after
        self.before = before
        self._saved: Dict[str, Any] = {}

    def __enter__(self):
        from pandora.state_machine import PandoraMachine

        for kind, name in STEP_RUN_CALLBACKS.items():
            orig = getattr(PandoraMachine, name)
            self._saved[name] = orig

            def make(orig=orig, name=name, kind=kind):
                def wrapper(machine, cfg, input_step):
                    shape = (int(machine.left_img.sizes["row"]), int(machine.left_img.sizes["col"]))
                    self.events.append((kind, input_step, machine.current_scale, shape))
                    if self.before is not None:
                        self.before(machine, input_step, kind)
                    res = orig(machine, cfg, input_step)
                    if self.after is not None:
                        self.after(machine, input_step, kind)
                    return res

                return wrapper

            setattr(PandoraMachine, name, make())
        return self

    def __exit__(self, *exc):
        from pandora.state_machine import PandoraMachine

        for name, orig in self._saved.items():
            setattr(PandoraMachine, name, orig)
        self._saved.clear()
        return False
