"""C07 — cross-checking flags exactly the left-right inconsistent pixels, nothing else.

Direct calls of `CrossCheckingAccurate.disparity_checking(left, right)` on generated pairs of disparity datasets,
judged per pixel by a loop-per-pixel reference (three-zone on exact half-integer correspondents and on sums within
1e-5 of the threshold)."""
from __future__ import annotations

import math

import numpy as np
from hypothesis import strategies as st

from .. import build
from ..core import Check, Ctx, fl

ID = "C07"
RULE = (
    "Hypothesis-generated pairs of left/right disparity datasets (1-6 rows x 2-14 cols, disparities on a 1, 1/2, "
    "1/4 grid or arbitrary floats, invalid pixels carrying NaN or -9999 with an invalid bit, information bits 2/3, "
    "pre-flagged borders when the window offset > 0, thresholds {0,1e-3,0.25,0.5,1,1.5,2}, integer intervals of either "
    "sign). A case is non-trivial when the judged (previously valid) pixels contain at least one consistent pixel, "
    "one pixel the reference calls mismatch and one it calls occlusion; distinct = distinct canonical payload. "
    "Pipeline twin: generated pairs and legal pipelines with 1-3 validation steps (no filling); the datasets handed to each "
    "validation step are captured and judged by the same oracle, on the left and on the right side."
)
ASSUMPTIONS = [
    "valid pixels carry finite disparities (what winner-takes-all / refinement / filters deliver)",
    "invalid pixels carry NaN or -9999 (C04's domain: invalid_disparity is NaN or outside the searched interval)",
    "which of bit 8 / bit 9 is raised for a correspondent outside the right image is not judged (property is silent)",
    "exact half-integer correspondents: either neighbour is admissible",
]

INVALID_BITS = [1, 2, 64, 128, 3, 66, 130, 256, 512, 260]
INFO_BITS = [0, 0, 0, 4, 8, 12]
PANDORA_INVALID = 0b01111000011


@st.composite
def _map(draw, H, W, dmin, dmax, q, off, invval):
    lo, hi = (math.floor((dmin - 1) / q), math.ceil((dmax + 1) / q)) if q else (0, 0)
    rows_d, rows_m = [], []
    for r in range(H):
        rd, rm = [], []
        for c in range(W):
            border = off and (r < off or r >= H - off or c < off or c >= W - off)
            kind = draw(st.integers(0, 9))
            if border:
                rd.append(invval)
                rm.append(1)
            elif kind <= 1:
                rd.append(invval)
                rm.append(draw(st.sampled_from(INVALID_BITS)))
            else:
                if q is None:
                    v = draw(st.floats(dmin - 1.0, dmax + 1.0, allow_nan=False, width=32))
                else:
                    v = draw(st.integers(lo, hi)) * q
                rd.append(v)
                rm.append(draw(st.sampled_from(INFO_BITS)))
        rows_d.append(rd)
        rows_m.append(rm)
    return {"d": rows_d, "m": rows_m}


@st.composite
def cases(draw):
    off = draw(st.sampled_from([0, 0, 0, 1, 2]))
    H = draw(st.integers(max(1, 2 * off + 1), 6))
    W = draw(st.integers(max(2, 2 * off + 1), 14))
    dmin = draw(st.integers(-5, 4))
    dmax = dmin + draw(st.integers(0, 6))
    q = draw(st.sampled_from([1, 1, 0.5, 0.5, 0.25, None]))
    thr = draw(st.sampled_from([0, 0.001, 0.25, 0.5, 1, 1.0, 1.5, 2]))
    invl = draw(st.sampled_from(["NaN", -9999]))
    invr = draw(st.sampled_from(["NaN", -9999]))
    left = draw(_map(H, W, dmin, dmax, q, off, invl))
    right = draw(_map(H, W, -dmax, -dmin, q, off, invr))
    return {"H": H, "W": W, "off": off, "dmin": dmin, "dmax": dmax, "thr": thr, "left": left, "right": right,
            "origin": draw(st.sampled_from([[0, 0], [0, 0], [0, 5], [3, 0], [17, 40], [2, 1]]))}


def rounds(x: float):
    """admissible integer roundings of x; [None] for non finite.  An exact half may be rounded to even (numpy.rint, what the
    statement's 'round' means in numpy) or away from zero (the schoolbook rule): both are admitted, nothing else - never
    'toward zero' (1.5 -> 1, -1.5 -> -1)."""
    if math.isnan(x) or math.isinf(x):
        return [None]
    f = math.floor(x)
    if x - f == 0.5:
        even = f if f % 2 == 0 else f + 1
        away = f + 1 if x > 0 else f
        return sorted({even, away})
    return [int(np.rint(x))]


def judge(ctx: Ctx, dl, vl, dr, vm, conf, dmin, dmax, thr, off, tag=""):
    """per-pixel oracle.  dl/vl: checked map and its mask before; dr: the other map; vm: mask after; conf: band or None.
    Returns counters (consistent, mismatch, occlusion, outside, half, nan_right)."""
    H, W = dl.shape
    n_cons = n_mis = n_occ = n_out = n_half = n_nan_right = 0
    for r in range(H):
        for c in range(W):
            before, after = int(vl[r, c]), int(vm[r, c])
            if off and (r < off or r >= H - off or c < off or c >= W - off):
                if after != 1:
                    ctx.violation("C07/border-not-bit0", f"border pixel {(r, c)} ends with {after}")
                continue
            if before & PANDORA_INVALID:
                if after != before:
                    ctx.violation("C07/invalid-pixel-touched", f"pixel {(r, c)} {before}->{after}")
                continue
            ctx.judged += 1
            new = after ^ before
            if (new & ~(256 | 512)) or (after & before) != before:
                ctx.violation("C07/other-bits-changed", f"pixel {(r, c)} {before}->{after}")
                continue
            x = float(dl[r, c])
            cands = [None if k is None else c + k for k in rounds(x)]  # the DISPARITY is rounded, then added to the column
            if len(cands) == 2:
                n_half += 1
            allowed = set()
            fuzzy = False
            expect_conf = []
            any_outside = False
            all_outside = all(qc is None or not 0 <= qc < W for qc in cands)
            for qc in cands:
                if qc is None or not 0 <= qc < W:
                    allowed |= {256, 512}
                    any_outside = True
                    continue
                y = float(dr[r, qc])
                if math.isnan(y):
                    n_nan_right += 1
                    y = math.inf
                s = abs(float(np.float32(x) + np.float32(y)))
                expect_conf.append(s)
                if abs(s - thr) < 1e-5 and s != thr:
                    fuzzy = True
                if s <= thr:
                    allowed.add(0)
                else:
                    hit_sure = False
                    hit_maybe = False
                    for dd in range(dmin, dmax + 1):
                        if 0 <= c + dd < W:
                            rv = rounds(float(dr[r, c + dd]))
                            if -dd in rv:
                                if len(rv) == 1:
                                    hit_sure = True
                                else:
                                    hit_maybe = True
                    if hit_sure:
                        allowed.add(512)
                    else:
                        allowed.add(256)
                        if hit_maybe:
                            allowed.add(512)
            if fuzzy:
                ctx.unspecified += 1
                continue
            if new not in allowed:
                if new == 0 and all_outside:
                    sig = "C07/outside-correspondent-unflagged"
                elif new == 0:
                    sig = "C07/inconsistent-pixel-unflagged"
                elif new == 768:
                    sig = "C07/both-occlusion-and-mismatch"
                elif allowed == {0}:
                    sig = "C07/consistent-pixel-flagged"
                else:
                    sig = "C07/occlusion-mismatch-confused"
                ctx.violation(sig, f"pixel {(r, c)} dL={x} thr={thr} new_bits={new} admissible={sorted(allowed)} "
                                   f"interval=[{dmin},{dmax}] right_row={dr[r].tolist()}")
            if 0 in allowed and len(allowed) == 1:
                n_cons += 1
            if allowed == {512}:
                n_mis += 1
            if allowed == {256}:
                n_occ += 1
            if any_outside:
                n_out += 1
            if conf is not None and expect_conf and not any_outside:
                got = float(conf[r, c])
                ok = any((math.isinf(e) and math.isinf(got)) or (not math.isinf(e) and abs(got - e) <= 1e-6 * max(1, e))
                         for e in expect_conf)
                if not ok:
                    ctx.violation("C07/confidence-band-wrong", f"pixel {(r, c)} band={got} expected one of {expect_conf}")

    return n_cons, n_mis, n_occ, n_out, n_half, n_nan_right


def body(ctx: Ctx, p: dict) -> None:
    from pandora import validation

    H, W, off, dmin, dmax = p["H"], p["W"], p["off"], p["dmin"], p["dmax"]
    thr = float(p["thr"])
    dl = build.arr(p["left"]["d"])
    dr = build.arr(p["right"]["d"])
    vl = np.array(p["left"]["m"], dtype=np.uint16)
    vr = np.array(p["right"]["m"], dtype=np.uint16)
    # the maps of a ROI / tile keep the coordinates of the whole image: rows and columns need not start at 0
    r0, c0 = p.get("origin", [0, 0])
    left = build.disparity_dataset(dl, vl, dmin, dmax, off, row0=r0, col0=c0)
    right = build.disparity_dataset(dr, vr, -dmax, -dmin, off, row0=r0, col0=c0)
    right_before = build.snapshot(right)
    val = validation.AbstractValidation(validation_method="cross_checking_accurate", cross_checking_threshold=p["thr"])
    out = val.disparity_checking(left, right)

    vm = out["validity_mask"].data.astype(int)
    if not np.array_equal(out["disparity_map"].data, dl, equal_nan=True):
        ctx.violation("C07/left-disparity-modified", "disparity_map of the checked dataset changed")
    d = build.snapshot_diff(right_before, build.snapshot(right))
    if d:
        ctx.violation("C07/other-dataset-modified", f"the reference (right) dataset changed: {d}")
    names = list(out.coords["indicator"].data) if "confidence_measure" in out else []
    if "confidence_from_left_right_consistency" not in names:
        ctx.violation("C07/confidence-band-missing", f"indicators={names}")
        conf = None
    else:
        conf = out["confidence_measure"].sel(indicator="confidence_from_left_right_consistency").data
    n_cons, n_mis, n_occ, n_out, n_half, n_nan_right = judge(ctx, dl, vl, dr, vm, conf, dmin, dmax, thr, off)
    classes = []
    if n_out:
        classes.append("correspondent-outside")
    if n_half:
        classes.append("half-integer-correspondent")
    if n_nan_right:
        classes.append("nan-on-the-right")
    if off:
        classes.append("offset>0")
    if p.get("origin", [0, 0]) != [0, 0]:
        classes.append("coordinates-not-from-0")
    ctx.case(p, nontrivial=bool(n_cons and n_mis and n_occ), classes=classes)


# ---------------------------------------------------------------------------------------------------------------
# pipeline twin: the states a real pipeline hands to the validation step, judged by the same oracle
# ---------------------------------------------------------------------------------------------------------------
@st.composite
def pipeline_cases(draw):
    from .. import gen

    pair = draw(gen.image_pair(min_rows=7, max_rows=12, min_cols=10, max_cols=18, max_val=9, masks=True))
    steps = draw(gen.legal_pipeline(validation=True, fill=draw(st.booleans()), repeat_validation=True, max_post=4))
    a = draw(st.integers(-4, 1))
    return {"pair": pair, "pipeline": steps, "disp": gen.clamp_interval([a, a + draw(st.integers(0, 4))], pair["W"], steps)}


def pipeline_body(ctx: Ctx, p: dict) -> None:
    from .. import drive, gen

    kw = gen.pair_kwargs(p["pair"])
    pipe = gen.pipe_dict(p["pipeline"])
    caps = []

    def before(machine, step, kind):
        if kind == "validation":
            caps.append({"step": step, "dl": machine.left_disparity["disparity_map"].data.copy(),
                         "vl": machine.left_disparity["validity_mask"].data.copy(),
                         "dr": machine.right_disparity["disparity_map"].data.copy(),
                         "vr": machine.right_disparity["validity_mask"].data.copy(),
                         "iv": [int(x) for x in machine.left_disparity["disparity_interval"].data],
                         "off": int(machine.left_disparity.attrs["offset_row_col"])})

    def after(machine, step, kind):
        if kind == "validation":
            c = caps[-1]
            c["vl_a"] = machine.left_disparity["validity_mask"].data.astype(int)
            c["vr_a"] = machine.right_disparity["validity_mask"].data.astype(int)
            c["cl"] = machine.left_disparity["confidence_measure"].sel(indicator="confidence_from_left_right_consistency").data
            c["dl_a"] = machine.left_disparity["disparity_map"].data.copy()
            c["dr_a"] = machine.right_disparity["disparity_map"].data.copy()

    # the two cross-checks of a step, as called (a filling option runs after them and rewrites flags and disparities)
    from pandora import validation as pval

    calls = []
    cls = pval.AbstractValidation.validation_methods_avail["cross_checking_accurate"]
    orig = cls.disparity_checking

    def wrapped(self, dataset_left, dataset_right, *a_, **k_):
        rec = {"d": dataset_left["disparity_map"].data.copy(), "v": dataset_left["validity_mask"].data.copy(),
               "ref": dataset_right["disparity_map"].data.copy()}
        out = orig(self, dataset_left, dataset_right, *a_, **k_)
        rec["v_a"] = out["validity_mask"].data.astype(int)
        rec["d_a"] = out["disparity_map"].data.copy()
        calls.append(rec)
        return out

    cls.disparity_checking = wrapped
    try:
        drive.run_pipeline(pipeline=pipe, disp=tuple(p["disp"]), spy=drive.Spy(before=before, after=after), **kw)
    finally:
        cls.disparity_checking = orig
    tot = [0] * 6
    if len(calls) != 2 * len(caps):
        ctx.violation("C07/cross-check-call-count", f"{len(calls)} cross-checks for {len(caps)} validation steps")
        calls = []
    for k, c in enumerate(caps):
        thr = float(pipe[c["step"]].get("cross_checking_threshold", 1.0))
        a, b = c["iv"]
        filling = "interpolated_disparity" in pipe[c["step"]]
        if not filling and (not np.array_equal(c["dl"], c["dl_a"], equal_nan=True) or not np.array_equal(c["dr"], c["dr_a"], equal_nan=True)):
            ctx.violation("C07/left-disparity-modified", f"step {c['step']} changed a disparity map")
        conf = c["cl"]
        if conf.ndim == 3:  # a repeated validation step appends a second band of the same name
            conf = conf[:, :, -1]
        if calls:
            cl_, cr_ = calls[2 * k], calls[2 * k + 1]
            same = lambda x, y: np.array_equal(x, y, equal_nan=True)  # noqa: E731
            # the left map is checked against the right map of the step, the right map against the LEFT MAP OF THE STEP (the
            # cross-check itself changes no disparity, and any filling comes after both checks)
            if not (same(cl_["d"], c["dl"]) and same(cl_["ref"], c["dr"])):
                ctx.violation("C07/left-map-checked-against-another-map", f"step {c['step']}")
            if not (same(cr_["d"], c["dr"]) and same(cr_["ref"], c["dl"])):
                ctx.violation("C07/right-map-checked-against-a-modified-left-map",
                              f"step {c['step']}: the reference of the right check differs from the left map the step received at "
                              f"{int((~((cr_['ref'] == c['dl']) | (np.isnan(cr_['ref']) & np.isnan(c['dl'])))).sum())} pixels")
            if not same(cl_["d"], cl_["d_a"]) or not same(cr_["d"], cr_["d_a"]):
                ctx.violation("C07/left-disparity-modified", f"step {c['step']}: a cross-check changed a disparity")
            vl_a, vr_a = cl_["v_a"], cr_["v_a"]
        else:
            vl_a, vr_a = c["vl_a"], c["vr_a"]
        res = judge(ctx, c["dl"], c["vl"], c["dr"], vl_a, None if filling else conf, a, b, thr, c["off"], c["step"])
        tot = [x + y for x, y in zip(tot, res)]
        # the right map is checked against the left one by the same rule
        res = judge(ctx, c["dr"], c["vr"], c["dl"], vr_a, None, -b, -a, thr, c["off"], c["step"] + "/right")
        tot = [x + y for x, y in zip(tot, res)]
    ctx.case(p, nontrivial=bool(tot[0] and tot[1] and tot[2]), classes=[f"validations={len(caps)}"] +
             (["half"] if tot[4] else []) + (["outside"] if tot[3] else []) +
             (["with-filling"] if any("interpolated_disparity" in c_ for _, c_ in p["pipeline"]) else []))


CHECKS = [
    Check("direct", body, strategy=cases, budget={"quick": (8, 150), "thorough": (16, 4000)}),
    Check("pipeline", pipeline_body, strategy=pipeline_cases, budget={"quick": (8, 20), "thorough": (16, 500)}),
]
