"""C08 — right-image products equal the left products of the mirrored problem.

Metamorphic, exact: run A = (L, R, [a,b]); run B = (R, L, [-b,-a]) with the masks exchanged.  right(A) == left(B) and
left(A) == right(B) on every product.  Without a validation step the right dataset is empty, and appending a
cross-checking step (no filling) as last step leaves the left disparity map bit-identical."""
from __future__ import annotations

import numpy as np
from hypothesis import strategies as st

from .. import drive, gen
from ..core import Check, Ctx

ID = "C08"
RULE = (
    "Hypothesis-generated pairs (7-16 x 8-20, integer radiometry, sparse masks, default/user mask convention), scalar "
    "intervals, legal pipelines from the grammar matching_cost {confidence|cbca}* disparity {filter|refinement|"
    "validation[+filling]}* with '.suffix' repetitions. 'mirror' cases contain a validation step; 'no-validation' cases "
    "do not. Non-trivial (mirror) = L != R and the right map has >= 1 valid and >= 1 flagged (non-border) pixel; "
    "'mirror-multiscale' cases are 24-48 px pairs through a 2-3 level pyramid with the validation step before or after "
    "the multiscale step and intervals not symmetric about 0. (no-validation) = adding the cross-check flags >= 1 pixel; distinct = distinct canonical payload."
)
ASSUMPTIONS = [
    "the added validation step is asserted to leave the left disparity map unchanged only when it is the last step "
    "(a later filter legitimately sees the new invalid flags)",
    "exact comparison (both runs execute the same kernels on the same numbers)",
]


def compare(ctx: Ctx, what: str, x, y) -> None:
    """x, y: disparity datasets that must hold identical products"""
    vx, vy = set(x.data_vars), set(y.data_vars)
    if vx != vy:
        ctx.violation("C08/product-variables-differ", f"{what}: {sorted(vx)} vs {sorted(vy)}")
        return
    for v in sorted(vx):
        a, b = x[v].data, y[v].data
        if v == "disparity_interval":
            continue
        if a.shape != b.shape or not np.array_equal(a, b, equal_nan=(a.dtype.kind == "f")):
            n = int((~((a == b) | (np.isnan(a) & np.isnan(b)) if a.dtype.kind == "f" else ~(a == b))).sum()) if a.shape == b.shape else -1
            ctx.violation(f"C08/{v}-differs", f"{what}: {n} elements differ")
    if "confidence_measure" in x:
        if list(x.coords["indicator"].data) != list(y.coords["indicator"].data):
            ctx.violation("C08/band-names-differ", f"{what}: {list(x.coords['indicator'].data)} vs {list(y.coords['indicator'].data)}")


@st.composite
def mirror_cases(draw):
    pair = draw(gen.image_pair(min_rows=7, max_rows=16, min_cols=8, max_cols=20, max_val=20, masks=True,
                               conventions="per-image"))
    pipe = draw(gen.legal_pipeline(validation=True, repeat_validation=True))
    a = draw(st.integers(-4, 2))
    out = {"pair": pair, "pipeline": pipe, "disp": gen.clamp_interval([a, a + draw(st.integers(0, 5))], pair["W"], pipe)}
    if draw(st.integers(0, 4)) == 0:
        # multiband images whose files store the bands in different orders: the band is selected by name on each image
        nb = draw(st.sampled_from([2, 3]))
        out["pipeline"] = [[n, c] for n, c in pipe if n.split(".")[0] != "aggregation"]  # cbca is a mono-band step
        out["mb"] = {"nb": nb, "offsets": draw(st.lists(st.integers(0, 9), min_size=nb, max_size=nb, unique=True)),
                     "perm": draw(st.permutations(list(range(nb)))), "band": draw(st.integers(0, nb - 1))}
        out["pipeline"][0][1]["band"] = ["r", "g", "b"][out["mb"]["band"]]
    return out


def mirror_body(ctx: Ctx, p: dict) -> None:
    left, right, ml, mr = gen.materialise_pair(p["pair"])
    bands = rbands = None
    if p.get("mb"):
        names = ["r", "g", "b"][:p["mb"]["nb"]]
        # band k = the scene plus an offset (and a band-dependent gain, so that bands are not interchangeable)
        lstack = [left * (1 + k) + o for k, o in enumerate(p["mb"]["offsets"])]
        rstack = [right * (1 + k) + o for k, o in enumerate(p["mb"]["offsets"])]
        bands, rbands = names, [names[i] for i in p["mb"]["perm"]]
        left = np.stack(lstack).astype(np.float32)
        right = np.stack([rstack[i] for i in p["mb"]["perm"]]).astype(np.float32)
    pipe = gen.pipe_dict(p["pipeline"])
    a, b = p["disp"]
    A = drive.run_pipeline(left, right, pipe, (a, b), msk_left=ml, msk_right=mr, bands=bands, right_bands=rbands,
                           **gen.conv_kwargs(p["pair"]))
    B = drive.run_pipeline(right, left, gen.pipe_dict(p["pipeline"]), (-b, -a), msk_left=mr, msk_right=ml, bands=rbands,
                           right_bands=bands, **gen.conv_kwargs(p["pair"], swap=True))
    if "disparity_map" not in A.right or "disparity_map" not in B.right:
        ctx.violation("C08/right-products-missing", "a validation step is configured but the right dataset is empty")
        return
    compare(ctx, "right(A) vs left(B)", A.right, B.left)
    compare(ctx, "left(A) vs right(B)", A.left, B.right)
    ctx.judged += 2 * sum(int(A.right[v].size) for v in A.right.data_vars if v != "disparity_interval")
    ivA, ivB = A.right["disparity_interval"].data, B.left["disparity_interval"].data
    if float(ivA[0]) != float(ivB[0]) or float(ivA[1]) != float(ivB[1]):
        ctx.violation("C08/right-interval-differs", f"{ivA.tolist()} vs {ivB.tolist()}")
    vm = A.right["validity_mask"].data
    off = int(A.right.attrs["offset_row_col"])
    core = vm[off:vm.shape[0] - off, off:vm.shape[1] - off] if off else vm
    nt = bool((left.shape != right.shape or (left != right).any()) and core.size and ((core & 0b1111000011) == 0).any() and ((core & 0b1111000011) != 0).any())
    names = [n.split(".")[0] for n, _ in p["pipeline"]]
    classes = []
    if any("interpolated_disparity" in c for _, c in p["pipeline"]):
        classes.append("filling")
    if "cost_volume_confidence" in names:
        classes.append("confidence")
    if "aggregation" in names:
        classes.append("cbca")
    if "refinement" in names:
        classes.append("refinement")
    if names.count("validation") > 1:
        classes.append("validation-twice")
    if "multiscale" in names:
        classes.append("multiscale")
        if a != -b:
            classes.append("multiscale-asymmetric-interval")
    if ml is not None or mr is not None:
        classes.append("mask")
    if mr is not None and "valid_right" in p["pair"]:
        classes.append("right-mask-own-convention")
    if p.get("mb"):
        classes.append("multiband" + ("-other-band-order" if list(p["mb"]["perm"]) != sorted(p["mb"]["perm"]) else ""))
    ctx.case(p, nontrivial=nt, classes=classes)


@st.composite
def noval_cases(draw):
    pair = draw(gen.image_pair(min_rows=7, max_rows=14, min_cols=8, max_cols=18, max_val=20, masks=True))
    pipe = draw(gen.legal_pipeline(validation=False))
    a = draw(st.integers(-4, 2))
    if draw(st.integers(0, 3)) == 0:
        # through a pyramid as well: the right dataset stays an empty dataset at every scale
        pair = draw(gen.image_pair(min_rows=24, max_rows=36, min_cols=24, max_cols=40, max_val=20, masks=True, tile_max=8))
        pipe = [[n, c] for n, c in pipe if n.split(".")[0] != "aggregation" or True]
        i_d = [n for n, _ in pipe].index("disparity")
        pipe.insert(draw(st.integers(i_d + 1, len(pipe))), ["multiscale", {"multiscale_method": "fixed_zoom_pyramid",
                                                                            "num_scales": draw(st.sampled_from([2, 2, 3]))}])
    return {"pair": pair, "pipeline": pipe, "disp": gen.clamp_interval([a, a + draw(st.integers(0, 5))], pair["W"], pipe)}


def noval_body(ctx: Ctx, p: dict) -> None:
    kw = gen.pair_kwargs(p["pair"])
    pipe = gen.pipe_dict(p["pipeline"])
    A = drive.run_pipeline(pipeline=pipe, disp=tuple(p["disp"]), **kw)
    import xarray as xr

    if not isinstance(A.right, xr.Dataset):
        ctx.violation("C08/right-dataset-not-empty-without-validation", f"the right product is {type(A.right).__name__}, not an "
                                                                        f"empty dataset pipeline={p['pipeline']}")
        ctx.case(p, nontrivial=False, classes=[])
        return
    if len(A.right.data_vars) != 0:
        ctx.violation("C08/right-dataset-not-empty-without-validation", f"{sorted(A.right.data_vars)}")
    pipe2 = gen.pipe_dict(p["pipeline"])
    pipe2["validation"] = {"validation_method": "cross_checking_accurate"}
    B = drive.run_pipeline(pipeline=pipe2, disp=tuple(p["disp"]), **kw)
    if not np.array_equal(A.left["disparity_map"].data, B.left["disparity_map"].data, equal_nan=True):
        ctx.violation("C08/cross-check-changed-left-disparity", "appending validation (no filling) changed the left map")
    new = (B.left["validity_mask"].data ^ A.left["validity_mask"].data)
    if (new & ~0b1100000000).any():
        ctx.violation("C08/cross-check-changed-other-bits", "appending validation changed bits other than 8/9")
    # the machine that just ran WITH validation now runs the pipeline without it: still an empty right dataset, same left
    C = drive.run_pipeline(pipeline=gen.pipe_dict(p["pipeline"]), disp=tuple(p["disp"]), machine=B.machine, **kw)
    if not isinstance(C.right, xr.Dataset) or len(C.right.data_vars) != 0:
        ctx.violation("C08/right-dataset-not-empty-without-validation",
                      f"on a machine that ran a pipeline with validation before: "
                      f"{sorted(C.right.data_vars) if isinstance(C.right, xr.Dataset) else type(C.right).__name__}")
    if not np.array_equal(A.left["disparity_map"].data, C.left["disparity_map"].data, equal_nan=True) or \
            not np.array_equal(A.left["validity_mask"].data, C.left["validity_mask"].data):
        ctx.violation("C08/left-product-depends-on-machine-history", "no-validation pipeline on a machine that ran with validation")
    ctx.case(p, nontrivial=bool((new != 0).any()), classes=(["multiscale"] if "multiscale" in pipe else []) + ["then-same-machine-without-validation"])


@st.composite
def multiscale_cases(draw):
    """the mirrored problem through a coarse-to-fine pyramid: the right interval grids of every finer scale come from
    the right map and the mirrored user interval"""
    pair = draw(gen.image_pair(min_rows=24, max_rows=44, min_cols=24, max_cols=48, max_val=30, masks=True, tile_max=8,
                               conventions="per-image"))
    ns = draw(st.sampled_from([2, 2, 3])) if min(pair["H"], pair["W"]) >= 36 else 2
    w = draw(st.sampled_from([1, 3]))
    steps = [["matching_cost", {"matching_cost_method": draw(st.sampled_from(["sad", "census", "zncc"])) if w > 1 else "ssd",
                               "window_size": w, "subpix": draw(st.sampled_from([1, 1, 2]))}]]
    if draw(st.integers(0, 3)) == 0:
        steps.append(["aggregation", {"aggregation_method": "cbca", "cbca_distance": 2}])
    steps.append(["disparity", {"disparity_method": "wta", "invalid_disparity": draw(st.sampled_from([-9999, "NaN"]))}])
    val = ["validation", {"validation_method": "cross_checking_accurate"}]
    if draw(st.booleans()):
        val[1]["cross_checking_threshold"] = draw(st.sampled_from([0, 1, 2]))
    extra = [["filter", {"filter_method": "median", "filter_size": 3}],
             ["refinement", {"refinement_method": draw(st.sampled_from(["vfit", "quadratic"]))}]]
    pre = [e for e in extra if draw(st.integers(0, 2)) == 0]
    post = [e for e in extra if e not in pre and draw(st.integers(0, 2)) == 0]
    ms = ["multiscale", {"multiscale_method": "fixed_zoom_pyramid", "num_scales": ns, "scale_factor": 2,
                         "marge": draw(st.integers(0, 2))}]
    if draw(st.booleans()):
        steps += pre + [val, ms] + post
    else:
        steps += pre + [ms] + post + [val]
    a = draw(st.integers(-8, 4))
    b = a + draw(st.integers(1, 8))
    return {"pair": pair, "pipeline": steps, "disp": [a, min(b, 8)]}


CHECKS = [
    Check("mirror", mirror_body, strategy=mirror_cases, budget={"quick": (12, 16), "thorough": (16, 800)}),
    Check("mirror-multiscale", mirror_body, strategy=multiscale_cases, budget={"quick": (6, 8), "thorough": (16, 200)}),
    Check("no-validation", noval_body, strategy=noval_cases, budget={"quick": (4, 16), "thorough": (16, 300)}),
]
