"""C05 — configuration checking completes, preserves and polices every parameter.

(single) exhaustive table: every parameter of every built-in method x {absent, each must-accept value, each
must-reject value}, one at a time, inside a legal pipeline; (combined) Hypothesis pipelines with several parameters
set / omitted / broken at once, multiband band rules; (full) `check_configuration.check_conf` on real GeoTIFF input
sections ('NaN'/'inf' strings, defaults of the input section, idempotence)."""
from __future__ import annotations

import copy
import json
import math
import os

import numpy as np
from hypothesis import strategies as st

from .. import build, drive, files
from ..core import Check, Ctx
from ..ref import params as P

ID = "C05"
RULE = (
    "single: the exhaustive table pbt/ref/params.py (35 parameters x their must-accept / must-reject values + "
    "'absent'); combined: generated legal pipelines (1-7 steps, suffixes) where every optional parameter is "
    "independently omitted, set to a must-accept value or (0-2 of them) to a must-reject value, on mono- and multiband "
    "metadata; reuse: 2-4 such pipelines (independent, or a permutation / a shortened copy of an earlier one, accepted or "
    "rejected) checked one after the other on ONE machine object and compared with a fresh machine; full: generated "
    "input sections on GeoTIFFs. Non-trivial (reuse) = >= 2 accepted configurations with different step lists; (others) = >= 1 parameter on/next to a boundary or of a "
    "wrong type, or >= 2 optional parameters omitted; distinct = distinct canonical payload."
)
ASSUMPTIONS = [
    "values the documentation leaves open (int where float is documented, bool where int is documented, eta >= 1, "
    "subpix 6/8, 'mc_cnn', negative thresholds) are never generated as judged values",
    "defaults asserted are exactly those listed in the property; other completed keys are only required to be present",
    "rejection = any exception raised by the checking call itself, before run_prepare or any <step>_run executes",
]


def enc(v):
    if isinstance(v, float) and math.isnan(v):
        return {"$f": "nan"}
    return v


def dec(v):
    if isinstance(v, dict) and set(v) == {"$f"}:
        return float(v["$f"])
    if isinstance(v, dict):
        return {k: dec(x) for k, x in v.items()}
    if isinstance(v, list):
        return [dec(x) for x in v]
    return v


def same(a, b) -> bool:
    if isinstance(a, float) and isinstance(b, float) and math.isnan(a) and math.isnan(b):
        return True
    if isinstance(a, dict) and isinstance(b, dict):
        return list(a) == list(b) and all(same(a[k], b[k]) for k in a)
    if isinstance(a, (list, tuple)) and isinstance(b, (list, tuple)):
        return len(a) == len(b) and all(same(x, y) for x, y in zip(a, b))
    return type(a) is type(b) and a == b or (isinstance(a, (int, float)) and isinstance(b, (int, float)) and
                                              not isinstance(a, bool) and not isinstance(b, bool) and a == b and
                                              type(a) is type(b))


def expected_value(v):
    """what the checked configuration must hold for a user value"""
    if v == "NaN":
        return float("nan")
    if v == "inf":
        return float("inf")
    if v == "-inf":
        return float("-inf")
    return v


def metadata(bands=None, shape=(12, 14), disp=(-2, 2), right_bands=None):
    if bands:
        img = np.zeros((len(bands),) + shape, dtype=np.float32)
    else:
        img = np.zeros(shape, dtype=np.float32)
    l = build.image_dataset(img, None, disp, bands=bands)
    r = build.image_dataset(img, None, None, bands=right_bands or bands)
    return build.metadata_dataset(l), build.metadata_dataset(r)


def run_check(pipe_list, md):
    """-> (accepted, result or exception, executed callbacks)"""
    from pandora.check_configuration import check_pipeline_section
    from pandora.state_machine import PandoraMachine

    executed = []
    orig = PandoraMachine.run_prepare

    def rp(self, *a, **k):
        executed.append("run_prepare")
        return orig(self, *a, **k)

    PandoraMachine.run_prepare = rp
    spy = drive.Spy()
    user = {"pipeline": {n: c for n, c in pipe_list}}
    frozen = copy.deepcopy(user)
    try:
        with spy:
            try:
                res = check_pipeline_section(user, md[0], md[1], PandoraMachine())
                ok = True
            except Exception as exc:  # noqa: BLE001
                res, ok = exc, False
    finally:
        PandoraMachine.run_prepare = orig
    mutated = not same(user, frozen)
    return ok, res, executed + [e[0] for e in spy.events], mutated, frozen


def judge_accept(ctx: Ctx, pipe_list, md, tag, kind_defaults=True):
    ok, res, executed, mutated, frozen = run_check(pipe_list, md)
    if not ok:
        ctx.violation("C05/in-domain-value-rejected", f"{tag}: {type(res).__name__}: {str(res)[:150]}")
        return None
    if mutated:
        ctx.violation("C05/user-dictionary-mutated", tag)
    out = res["pipeline"]
    if list(out) != [n for n, _ in pipe_list]:
        ctx.violation("C05/steps-reordered-or-dropped", f"{tag}: {list(out)}")
        return None
    for name, ucfg in pipe_list:
        got = out[name]
        ucfg = frozen["pipeline"][name]
        pos = [k for k in got if k in ucfg]
        if pos != list(ucfg):
            ctx.violation("C05/user-key-position-changed", f"{tag}: step {name} user order {list(ucfg)} result order {pos}")
        for k, v in ucfg.items():
            if k not in got or not same(got[k], expected_value(v)):
                ctx.violation("C05/user-value-changed", f"{tag}: {name}.{k} = {v!r} -> {got.get(k)!r}")
        kind = name.split(".")[0]
        mkey = [k for k in ucfg if k.endswith("_method")]
        if kind_defaults and mkey:
            dflt = P.DEFAULTS.get((kind, (mkey[0], ucfg[mkey[0]])), {})
            for k, d in dflt.items():
                if k not in ucfg:
                    if k not in got:
                        ctx.violation("C05/default-missing", f"{tag}: {name}.{k} absent from the checked configuration")
                    elif not same(got[k], d):
                        ctx.violation("C05/default-value-wrong", f"{tag}: {name}.{k} = {got[k]!r}, documented default {d!r}")
    # the machine-level entry point (API users call it directly): same acceptance, user dictionary untouched
    from pandora.state_machine import PandoraMachine

    direct = {"pipeline": {n: copy.deepcopy(c) for n, c in frozen["pipeline"].items()}}
    direct_before = copy.deepcopy(direct)
    m = PandoraMachine()
    # 'inf' / '-inf' strings are turned into floats by check_pipeline_section / check_conf only (update_conf); the
    # machine-level entry point is not promised to read them
    strings = any(v in ("inf", "-inf") for c in direct["pipeline"].values() for v in c.values() if isinstance(v, str))
    try:
        if strings:
            raise StopIteration
        m.check_conf(direct, md[0], md[1])
    except StopIteration:
        pass
    except Exception as exc:  # noqa: BLE001
        ctx.violation("C05/in-domain-value-rejected", f"{tag} (PandoraMachine.check_conf): {type(exc).__name__}: {str(exc)[:120]}")
    else:
        if not same(direct, direct_before):
            ctx.violation("C05/user-dictionary-mutated", f"{tag} (PandoraMachine.check_conf): {direct} vs {direct_before}")
        for name, ucfg in direct_before["pipeline"].items():
            got = m.pipeline_cfg["pipeline"].get(name, {})
            for k, v in ucfg.items():
                if k not in got or not same(got[k], expected_value(v)):
                    ctx.violation("C05/user-value-changed", f"{tag} (PandoraMachine.check_conf): {name}.{k} = {v!r} -> {got.get(k)!r}")
    # idempotence on a fresh machine
    again = [[n, copy.deepcopy(c)] for n, c in out.items()]
    ok2, res2, _, _, _ = run_check(again, md)
    if not ok2:
        ctx.violation("C05/checked-configuration-rejected-when-checked-again", f"{tag}: {type(res2).__name__}: {str(res2)[:120]}")
    elif not same(res2["pipeline"], out):
        ctx.violation("C05/checking-not-idempotent", f"{tag}: {res2['pipeline']} vs {out}")
    return out


def judge_reject(ctx: Ctx, pipe_list, md, tag):
    ok, res, executed, mutated, _ = run_check(pipe_list, md)
    if ok:
        ctx.violation("C05/out-of-domain-value-accepted", f"{tag} -> {res['pipeline']}")
    if executed:
        ctx.violation("C05/processing-started-before-rejection", f"{tag}: {executed[:3]}")
    if mutated:
        ctx.violation("C05/user-dictionary-mutated", tag)


# ---------------------------------------------------------------------------------------------------------------
def enumerate_single(tier, shard, nshards):
    n = 0
    for i, (kind, base, param, default, acc, rej) in enumerate(P.TABLE):
        cells = [("absent", None)] + [("accept", enc(v)) for v in acc] + [("reject", enc(v)) for v in rej]
        for cls, v in cells:
            if n % nshards == shard:
                yield {"row": i, "class": cls, "value": v}
            n += 1


def single_body(ctx: Ctx, p: dict) -> None:
    kind, base, param, default, acc, rej = P.TABLE[p["row"]]
    cfg = copy.deepcopy(base)
    cls = p["class"]
    if cls != "absent":
        cfg[param] = dec(p["value"])
    elif param in base:
        del cfg[param]  # the mandatory method key itself absent: must be rejected
        cls = "reject"
    pipe = P.legal_pipeline_around(kind, cfg)
    md = metadata()
    tag = f"{kind} {base} {param}={cfg.get(param, '<absent>')!r}"
    if cls == "reject":
        judge_reject(ctx, pipe, md, tag)
    else:
        judge_accept(ctx, pipe, md, tag)
    ctx.judged += 1
    ctx.case(p, nontrivial=True, classes=[cls, kind])


# ---------------------------------------------------------------------------------------------------------------
ROWS_BY_KIND = {}
for _i, _row in enumerate(P.TABLE):
    ROWS_BY_KIND.setdefault((_row[0], tuple(_row[1].items())[0]), []).append(_i)


@st.composite
def step_cfg(draw, kind, base, broken):
    """returns (cfg, n_omitted, n_boundary, rejected?)"""
    cfg = dict(base)
    rows = ROWS_BY_KIND.get((kind, tuple(base.items())[0]), [])
    omitted = boundary = 0
    bad = False
    order = draw(st.permutations(rows)) if rows else []
    for i in order:
        _, _, param, default, acc, rej = P.TABLE[i]
        if param.endswith("_method") or param == "step":
            continue
        if param in ("interpolated_disparity",) and draw(st.booleans()):
            continue
        mode = draw(st.sampled_from(["omit", "omit", "accept", "accept", "accept", "reject"]))
        if mode == "reject" and not broken:
            mode = "accept"
        if mode == "omit":
            omitted += 1
        elif mode == "accept":
            cfg[param] = enc(draw(st.sampled_from(acc)))
            boundary += 1
        else:
            cfg[param] = enc(draw(st.sampled_from(rej)))
            bad = True
            boundary += 1
    if draw(st.booleans()):  # method key not always first
        items = list(cfg.items())
        items = items[1:] + items[:1]
        cfg = dict(items)
    return cfg, omitted, boundary, bad


@st.composite
def combined_cases(draw):
    broken = draw(st.booleans())
    nb = draw(st.sampled_from([1, 1, 3]))
    steps = []
    stats = [0, 0, False]

    def add(name, kind, base):
        cfg, o, b, bad = draw(step_cfg(kind, base, broken))
        stats[0] += o
        stats[1] += b
        stats[2] = stats[2] or bad
        steps.append([name, cfg])

    mc_base = draw(st.sampled_from([P.MC, P.SSD, P.ZNCC, P.CENSUS]))
    add("matching_cost", "matching_cost", mc_base)
    band_ok = True
    if nb > 1:
        b = draw(st.sampled_from(["r", "g", "b", "x", None]))
        if b is not None:
            steps[0][1]["band"] = b
        band_ok = b in ("r", "g", "b")
        right_bands = draw(st.sampled_from([None, None, ["r", "g", "b"], ["g", "b", "n"]]))
        if right_bands == ["g", "b", "n"] and b == "r":
            band_ok = False
    elif draw(st.integers(0, 5)) == 0:
        steps[0][1]["band"] = "r"
        band_ok = False
    ncv = 0
    for _ in range(draw(st.integers(0, 2))):
        k = draw(st.sampled_from(["cbca", "amb", "risk", "ib", "std"]))
        if k == "cbca":
            if nb > 1 or any(n.startswith("aggregation") for n, _ in steps):
                continue
            add("aggregation", "aggregation", P.CBCA)
        else:
            base = {"amb": P.AMB, "risk": P.RISK, "ib": P.IB, "std": P.STD}[k]
            add(f"cost_volume_confidence.c{ncv}", "cost_volume_confidence", base)
            ncv += 1
    add("disparity", "disparity", P.WTA)
    if nb == 1:
        right_bands = None
    cnt = {}
    for _ in range(draw(st.integers(0, 3))):
        k = draw(st.sampled_from(["median", "bilateral", "mfi", "refinement", "validation", "multiscale"]))
        kind = {"median": "filter", "bilateral": "filter", "mfi": "filter"}.get(k, k)
        if kind in ("validation", "multiscale") and cnt.get(kind):
            continue
        name = kind if not cnt.get(kind) else f"{kind}.{cnt[kind]}"
        cnt[kind] = cnt.get(kind, 0) + 1
        base = {"median": P.MED, "bilateral": P.BIL, "mfi": P.MFI, "refinement": {"refinement_method": draw(st.sampled_from(["vfit", "quadratic"]))},
                "validation": P.VAL, "multiscale": P.MS}[k]
        add(name, kind, base)
    return {"steps": steps, "nb": nb, "omitted": stats[0], "boundary": stats[1], "bad": bool(stats[2]), "band_ok": band_ok,
            "right_bands": right_bands}


def combined_body(ctx: Ctx, p: dict) -> None:
    steps = [[n, dec(c)] for n, c in p["steps"]]
    bands = ["r", "g", "b"][:p["nb"]] if p["nb"] > 1 else None
    md = metadata(bands, right_bands=p.get("right_bands"))
    tag = f"steps={steps} bands={bands} right_bands={p.get('right_bands')}"
    if p["bad"] or not p["band_ok"]:
        judge_reject(ctx, steps, md, tag)
    else:
        judge_accept(ctx, steps, md, tag)
    ctx.judged += 1
    classes = ["rejected" if (p["bad"] or not p["band_ok"]) else "accepted"]
    if bands:
        classes.append("multiband")
    if not p["band_ok"]:
        classes.append("band-rule")
    ctx.case(p, nontrivial=bool(p["boundary"] >= 1 or p["omitted"] >= 2), classes=classes)


# ---------------------------------------------------------------------------------------------------------------
@st.composite
def reuse_cases(draw):
    """several configurations checked one after the other with ONE machine object"""
    good = combined_cases().filter(lambda c: not c["bad"] and c["band_ok"])
    first = draw(good)
    seq = [first]
    for _ in range(draw(st.integers(1, 3))):
        how = draw(st.sampled_from(["fresh", "permute", "drop", "fresh"]))
        if how == "fresh":
            seq.append(draw(good if draw(st.integers(0, 3)) else combined_cases()))
            continue
        base = copy.deepcopy(seq[draw(st.integers(0, len(seq) - 1))])
        names = [n for n, _ in base["steps"]]
        i_d = names.index("disparity")
        if how == "permute":
            cv, post = base["steps"][1:i_d], base["steps"][i_d + 1:]
            cv = list(draw(st.permutations(cv))) if cv else cv
            post = list(draw(st.permutations(post))) if post else post
            base["steps"] = [base["steps"][0]] + cv + [base["steps"][i_d]] + post
        else:
            kinds = [n.split(".")[0] for n in names]
            fed = {c.get("interval_indicator") for _, c in base["steps"]} | {c.get("ambiguity_indicator") for _, c in base["steps"]}
            cand = [i for i, k in enumerate(kinds) if k in ("aggregation", "filter", "refinement", "validation", "multiscale")]
            if not any(c.get("filter_method") == "median_for_intervals" for _, c in base["steps"]):
                cand += [i for i, k in enumerate(kinds) if k == "cost_volume_confidence"]
            if cand:
                del base["steps"][draw(st.sampled_from(cand))]
        base["how"] = how
        seq.append(base)
    return {"seq": seq}


def reuse_body(ctx: Ctx, p: dict) -> None:
    from pandora.check_configuration import check_pipeline_section
    from pandora.state_machine import PandoraMachine

    shared = PandoraMachine()
    outs = []
    for k, c in enumerate(p["seq"]):
        steps = [[n, dec(cfg)] for n, cfg in c["steps"]]
        bands = ["r", "g", "b"][:c["nb"]] if c["nb"] > 1 else None
        md = metadata(bands, right_bands=c.get("right_bands"))
        tag = f"check #{k + 1} on one machine, steps={steps} bands={bands}"
        res = []
        for m in (PandoraMachine(), shared):
            user = {"pipeline": {n: copy.deepcopy(cfg) for n, cfg in steps}}
            try:
                res.append((True, check_pipeline_section(user, md[0], md[1], m)))
            except Exception as exc:  # noqa: BLE001
                res.append((False, exc))
        (ok_f, r_f), (ok_s, r_s) = res
        ctx.judged += 1
        if ok_f != ok_s:
            ctx.violation("C05/acceptance-depends-on-earlier-checks", f"{tag}: fresh machine {'accepts' if ok_f else 'rejects'}, "
                                                                      f"used machine {'accepts' if ok_s else 'rejects: ' + str(r_s)[:100]}")
            continue
        if not ok_s:
            # only a successful check is promised to leave the machine reusable: go on with a new one
            shared = PandoraMachine()
            outs.append(None)
            continue
        got = list(r_s["pipeline"])
        if got != [n for n, _ in steps]:
            ctx.violation("C05/steps-reordered-or-dropped", f"{tag}: {got}")
        elif not same(r_s, r_f):
            ctx.violation("C05/checked-configuration-depends-on-earlier-checks", f"{tag}: {r_s['pipeline']} vs fresh {r_f['pipeline']}")
        outs.append(got)
    acc = [o for o in outs if o is not None]
    classes = [f"accepted{len(acc)}of{len(outs)}"] + sorted({c.get("how", "fresh") for c in p["seq"][1:]})
    ctx.case(p, nontrivial=bool(len(acc) >= 2 and any(a != acc[0] for a in acc[1:])), classes=classes)


# ---------------------------------------------------------------------------------------------------------------
@st.composite
def full_cases(draw):
    nodata = draw(st.sampled_from(["omit", -9999, 0, 255, "NaN"]))  # the input section documents int or NaN
    return {"nodata_left": nodata, "nodata_right": draw(st.sampled_from(["omit", -9999, 7, "NaN"])),
            "mask_left": draw(st.booleans()), "mask_right": draw(st.booleans()),
            "disp": [draw(st.integers(-4, 0)), draw(st.integers(0, 4))],
            "explicit_none": draw(st.booleans()),
            "invalid": draw(st.sampled_from(["omit", "NaN", -9999, 5])),
            "validation": draw(st.booleans())}


def full_body(ctx: Ctx, p: dict) -> None:
    from pandora.check_configuration import check_conf
    from pandora.state_machine import PandoraMachine

    with files.scratch_dir("c05") as d:
        img = (np.arange(12 * 14).reshape(12, 14) % 17).astype(np.float32)
        lp = files.write_tiff(os.path.join(d, "left.tif"), img)
        rp = files.write_tiff(os.path.join(d, "right.tif"), np.roll(img, 1, 1))
        mk = files.write_tiff(os.path.join(d, "mask.tif"), (img % 5 == 0).astype(np.int16), dtype="int16")
        left = {"img": lp, "disp": list(p["disp"])}
        right = {"img": rp}
        if p["nodata_left"] != "omit":
            left["nodata"] = p["nodata_left"]
        if p["nodata_right"] != "omit":
            right["nodata"] = p["nodata_right"]
        if p["mask_left"]:
            left["mask"] = mk
        if p["mask_right"]:
            right["mask"] = mk
        if p["explicit_none"]:
            right["disp"] = None
            left["classif"] = None
        disp_cfg = {"disparity_method": "wta"}
        if p["invalid"] != "omit":
            disp_cfg["invalid_disparity"] = p["invalid"]
        pipe = {"matching_cost": {"matching_cost_method": "zncc"}, "disparity": disp_cfg}
        if p["validation"]:
            pipe["validation"] = {"validation_method": "cross_checking_accurate"}
        user = {"input": {"left": left, "right": right}, "pipeline": pipe}
        frozen = copy.deepcopy(user)
        tag = f"user={json.dumps(frozen, default=str)[:300]}"
        try:
            cfg = check_conf(user, PandoraMachine())
        except Exception as exc:  # noqa: BLE001
            ctx.violation("C05/well-formed-configuration-rejected", f"{tag}: {type(exc).__name__}: {str(exc)[:150]}")
            ctx.case(p, False)
            return
        if not same(user, frozen):
            ctx.violation("C05/user-dictionary-mutated", f"full check_conf: {tag}")
        for side in ("left", "right"):
            got = cfg["input"][side]
            for k, v in frozen["input"][side].items():
                if k not in got or not same(got[k], expected_value(v)):
                    ctx.violation("C05/user-value-changed", f"input.{side}.{k} = {v!r} -> {got.get(k)!r}")
            dflt = {"nodata": -9999, "mask": None, "classif": None, "segm": None}
            if side == "right":
                dflt["disp"] = None
            for k, dv in dflt.items():
                if k not in frozen["input"][side] and (k not in got or not same(got[k], dv)):
                    ctx.violation("C05/input-default-wrong", f"input.{side}.{k} = {got.get(k, '<absent>')!r}, documented default {dv!r}")
        inv = cfg["pipeline"]["disparity"].get("invalid_disparity")
        exp_inv = -9999 if p["invalid"] == "omit" else expected_value(p["invalid"])
        if not same(inv, exp_inv):
            ctx.violation("C05/default-value-wrong" if p["invalid"] == "omit" else "C05/user-value-changed",
                          f"disparity.invalid_disparity = {inv!r} expected {exp_inv!r}")
        if cfg["pipeline"]["matching_cost"].get("window_size") != 5 or cfg["pipeline"]["matching_cost"].get("subpix") != 1:
            ctx.violation("C05/default-value-wrong", f"matching_cost defaults: {cfg['pipeline']['matching_cost']}")
        if p["validation"] and cfg["pipeline"]["validation"].get("cross_checking_threshold") != 1.0:
            ctx.violation("C05/default-value-wrong", f"validation: {cfg['pipeline']['validation']}")
        # idempotence of the whole checked configuration
        try:
            cfg2 = check_conf(copy.deepcopy(cfg), PandoraMachine())
            if not same(cfg2, cfg):
                ctx.violation("C05/checking-not-idempotent", f"full: {cfg2} vs {cfg}")
        except Exception as exc:  # noqa: BLE001
            ctx.violation("C05/checked-configuration-rejected-when-checked-again", f"full: {type(exc).__name__}: {str(exc)[:150]}")
    ctx.judged += 1
    n_omit = sum(1 for k in ("nodata_left", "nodata_right", "invalid") if p[k] == "omit")
    ctx.case(p, nontrivial=bool(n_omit >= 2 or "NaN" in (p["nodata_left"], p["nodata_right"], p["invalid"]) or
                                False), classes=[])


CHECKS = [
    Check("single", single_body, enumerate=enumerate_single, exhaustive=True, budget={"quick": (4, 0), "thorough": (4, 0)}),
    Check("combined", combined_body, strategy=combined_cases, budget={"quick": (8, 80), "thorough": (16, 3000)}),
    Check("reuse", reuse_body, strategy=reuse_cases, budget={"quick": (4, 60), "thorough": (16, 1500)}),
    Check("full", full_body, strategy=full_cases, budget={"quick": (4, 25), "thorough": (8, 400)}),
]
