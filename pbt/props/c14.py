"""C14 — occlusion/mismatch filling touches only flagged pixels, fills from valid ones.

Direct calls of `AbstractInterpolation(**cfg).interpolated_disparity(ds)` for both methods on generated maps in
any layout of valid / invalid / occluded / mismatched pixels; judged by a validity predicate (the property admits
several correct fills) plus the exact mc-cnn occlusion rule."""
from __future__ import annotations

import math

import numpy as np
from hypothesis import strategies as st

from .. import build
from ..core import Check, Ctx

ID = "C14"
RULE = (
    "Hypothesis-generated disparity maps (1-9 x 1-9, window offset 0/1) after cross-checking: every pixel is valid "
    "(information bits 2/3 possible), invalid (bits 0/1/6/7), occluded (bit 8) or mismatched (bit 9) with generated "
    "weights, including rows, columns and whole maps without any valid pixel and whole rows / columns / diagonals of "
    "flagged pixels; valid disparities from intervals that "
    "do or do not contain 0; both methods. Non-trivial = at least one pixel that must be filled (a valid pixel is "
    "visible along a principal direction) and at least one flagged pixel with no valid pixel in any principal "
    "direction; distinct = distinct canonical payload."
)
ASSUMPTIONS = [
    "a pixel carries at most one of bit 8 / bit 9 and never together with an invalid bit 0/1/6/7 (what cross-checking delivers)",
    "MUST-fill is asserted only when a valid pixel is visible along one of the 8 principal directions (same row for the "
    "mc-cnn occlusion rule); MUST-stay-flagged when no valid pixel (or pixel filled by the pass that runs first) lies on "
    "any cell that any discretisation (truncate / floor / ceil of half steps) of the documented directions can visit; a "
    "filled value lies between the smallest and largest source in that sight set",
    "metamorphic: re-labelling the other flagged pixels of a pixel's kind as plainly invalid leaves it unchanged (mc-cnn both "
    "kinds, sgm mismatches not touching an occlusion); mc-cnn filling commutes with turning the map upside down. sgm is "
    "excluded from the flip relation (its second-lowest-|d| rule breaks ties by direction order)",
]

INV = 0b01111000011


@st.composite
def cases(draw):
    off = draw(st.sampled_from([0, 0, 1]))
    H = draw(st.integers(2 * off + 1, 9))
    W = draw(st.integers(2 * off + 1, 9))
    lo = draw(st.sampled_from([-6, -3, 2, 5, -12]))
    hi = lo + draw(st.integers(0, 6))
    weights = draw(st.sampled_from([(6, 1, 2, 2), (2, 1, 4, 4), (1, 1, 5, 5), (0, 1, 3, 3), (3, 3, 1, 1), (8, 0, 1, 1)]))
    pool = ["v"] * weights[0] + ["i"] * weights[1] + ["o"] * weights[2] + ["m"] * weights[3]
    quant = draw(st.sampled_from([1, 2, 4]))
    kinds, vals = [], []
    for r in range(H):
        kinds.append([draw(st.sampled_from(pool)) for _ in range(W)])
        vals.append([draw(st.integers(lo * quant, hi * quant)) / quant for _ in range(W)])
    # whole rows / columns / the main diagonal of flagged pixels: scan paths that reach the opposite edge without a find
    for _ in range(draw(st.sampled_from([0, 0, 1, 2]))):
        k = draw(st.sampled_from(["m", "m", "o", "i"]))
        how = draw(st.sampled_from(["row", "col", "diag"]))
        idx = draw(st.integers(0, max(H, W) - 1))
        for r in range(H):
            for c in range(W):
                if (how == "row" and r == idx % H) or (how == "col" and c == idx % W) or (how == "diag" and r == c):
                    kinds[r][c] = k
    return {"H": H, "W": W, "off": off, "kinds": kinds, "vals": vals, "lo": lo, "hi": hi, "probe": draw(st.integers(0, 80)),
            "method": draw(st.sampled_from(["mc-cnn", "sgm"])),
            "invalid_value": draw(st.sampled_from(["NaN", -9999])),
            "info": draw(st.sampled_from([0, 4, 8, 12]))}


def materialise(p):
    H, W, off = p["H"], p["W"], p["off"]
    invv = np.float32(np.nan) if p["invalid_value"] == "NaN" else np.float32(p["invalid_value"])
    d = np.array(p["vals"], dtype=np.float32)
    m = np.zeros((H, W), dtype=np.uint16)
    inv_flags = [1, 2, 64, 128, 66, 3]
    for r in range(H):
        for c in range(W):
            k = p["kinds"][r][c]
            if off and (r < off or r >= H - off or c < off or c >= W - off):
                k = "b"
            if k == "v":
                m[r, c] = p["info"] if (r + c) % 3 == 0 else 0
            elif k == "i":
                m[r, c] = inv_flags[(r * 3 + c) % len(inv_flags)]
                d[r, c] = invv
            elif k == "b":
                m[r, c] = 1
                d[r, c] = invv
            elif k == "o":
                m[r, c] = 256 | (p["info"] if (r + c) % 2 else 0)
            else:
                m[r, c] = 512 | (p["info"] if (r + c) % 2 else 0)
    return d, m


DIRS8 = [(0, 1), (-1, 1), (-1, 0), (-1, -1), (0, -1), (1, -1), (1, 0), (1, 1)]


def visible_valid(valid: np.ndarray, r: int, c: int, dirs) -> bool:
    H, W = valid.shape
    for dr, dc in dirs:
        rr, cc = r + dr, c + dc
        while 0 <= rr < H and 0 <= cc < W:
            if valid[rr, cc]:
                return True
            rr += dr
            cc += dc
    return False


# mc-cnn mismatch: the 16 documented directions (row step, column step); half steps are discretised by the implementation
RAYS16 = [(0.0, 1.0), (-0.5, 1.0), (-1.0, 1.0), (-1.0, 0.5), (-1.0, 0.0), (-1.0, -0.5), (-1.0, -1.0), (-0.5, -1.0),
          (0.0, -1.0), (0.5, -1.0), (1.0, -1.0), (1.0, -0.5), (1.0, 0.0), (1.0, 0.5), (1.0, 1.0), (0.5, 1.0)]


def ray_cells(r, c, H, W, rays, loose):
    """cells a scan from (r, c) can visit; `loose`: every discretisation of a half step (truncate / floor / ceil) is
    admitted, so the set is a superset of what any implementation of the documented directions looks at"""
    cells = set()
    fs = (math.trunc, math.floor, math.ceil) if loose else (math.trunc,)
    for dy, dx in rays:
        for i in range(1, max(H, W) + 1):
            for f in fs:
                for g in fs:
                    rr, cc = r + f(dy * i), c + g(dx * i)
                    if 0 <= rr < H and 0 <= cc < W:
                        cells.add((rr, cc))
    return cells


def judge(ctx: Ctx, method, d, m, gd, gm, off):
    """predicate over one filling call: d/m before, gd/gm after.  Returns (n_must, n_unfillable, n_filled, valid map)"""
    H, W = d.shape
    mi = m.astype(int)
    valid = (mi & INV) == 0
    flagged = (mi & (256 | 512)) != 0
    any_valid = bool(valid.any())
    vmin = float(d[valid].min()) if any_valid else None
    vmax = float(d[valid].max()) if any_valid else None
    n_must = n_unfillable = n_filled = 0
    for r in range(H):
        for c in range(W):
            b, a = int(mi[r, c]), int(gm[r, c])
            if off and (r < off or r >= H - off or c < off or c >= W - off):
                if a != 1:
                    ctx.violation("C14/border-not-bit0", f"{method} border {(r, c)} ends with {a}")
                continue
            if not flagged[r, c]:
                same = (gd[r, c] == d[r, c]) or (np.isnan(gd[r, c]) and np.isnan(d[r, c]))
                if a != b or not same:
                    ctx.violation("C14/unflagged-pixel-changed", f"{method} pixel {(r, c)} mask {b}->{a} disp {d[r, c]}->{gd[r, c]}")
                continue
            ctx.judged += 1
            was = 256 if b & 256 else 512
            rest_b = b & ~(256 | 512 | 16 | 32)
            rest_a = a & ~(256 | 512 | 16 | 32)
            if rest_a != rest_b or (a & b & 48) != (b & 48):
                ctx.violation("C14/other-bits-changed", f"{method} pixel {(r, c)} mask {b}->{a}")
                continue
            still = a & (256 | 512)
            prev_fill = b & 48
            nb_ = mi[max(0, r - 1):r + 2, max(0, c - 1):c + 2]
            sgm_exc = method == "sgm" and was == 512 and bool((nb_ & 256).any())  # mismatch touching an occlusion
            allowed_new = 16 if was == 256 else (32 | (16 if sgm_exc else 0))
            new_fill = (a & 48) & ~prev_fill
            if new_fill & ~allowed_new:
                ctx.violation("C14/flag-exchange-wrong", f"{method} pixel {(r, c)} mask {b}->{a}")
                continue
            # `fill` = the filled bit that stands for this call (it may have been there already after an earlier step)
            fill = 0 if still else ((a & 48) & allowed_new)
            see_row = visible_valid(valid, r, c, [(0, -1), (0, 1)])
            see8 = visible_valid(valid, r, c, DIRS8)
            if not see8:
                n_unfillable += 1
            if (still and new_fill) or (not still and not fill) or still == 768:
                ctx.violation("C14/flag-exchange-wrong", f"{method} pixel {(r, c)} mask {b}->{a}")
                continue
            if still:
                # stays flagged: kind may only change 9 -> 8 for sgm next to an occlusion
                if still != was:
                    nb = mi[max(0, r - 1):r + 2, max(0, c - 1):c + 2]
                    if not (method == "sgm" and was == 512 and still == 256 and (nb & 256).any()):
                        ctx.violation("C14/flag-kind-changed", f"{method} pixel {(r, c)} mask {b}->{a}")
                must = see_row if (method == "mc-cnn" and was == 256) else see8
                if must:
                    n_must += 1
                    ctx.violation("C14/fillable-pixel-left-flagged", f"{method} pixel {(r, c)} mask {b}->{a} although a valid "
                                                                     f"pixel is visible")
                continue
            # filled
            n_filled += 1
            if (method == "mc-cnn" and was == 256 and see_row) or see8:
                n_must += 1
            ok_kind = (was == 256 and fill & 16) or (was == 512 and fill & 32) or (sgm_exc and fill & 16)
            if not ok_kind:
                ctx.violation("C14/flag-exchange-wrong", f"{method} pixel {(r, c)} mask {b}->{a}")
            g = float(gd[r, c])
            if not any_valid:
                ctx.violation("C14/filled-without-any-valid-pixel", f"{method} pixel {(r, c)} mask {b}->{a} disp {g}: "
                                                                    f"the map has no valid pixel")
                continue
            if not math.isfinite(g):
                sig = "C14/filled-non-finite-no-valid-in-sight" if not see8 else (
                    "C14/sgm-occlusion-single-valid-neighbour-nan" if (method == "sgm" and fill & 16) else "C14/filled-non-finite")
                ctx.violation(sig, f"{method} pixel {(r, c)} mask {b}->{a} disp {g}")
                continue
            if not (vmin <= g <= vmax):
                sig = "C14/filled-outside-valid-range"
                ctx.violation(sig, f"{method} pixel {(r, c)} mask {b}->{a} disp {g} valid range [{vmin},{vmax}]")
                continue
            # the sources are the valid pixels in sight along the documented directions (for the pass that runs second,
            # also the pixels the first pass has just filled): the value lies between the smallest and largest of them
            gmi = gm.astype(int)
            if method == "mc-cnn":
                first_pass = was == 256
                cells = {(r, cc) for cc in range(W) if cc != c} if first_pass else ray_cells(r, c, H, W, RAYS16, True)
                filled_before = (mi & 256 != 0) & (gmi & 256 == 0) & (gmi & 16 != 0)
            else:
                first_pass = was == 512 and not sgm_exc
                cells = ray_cells(r, c, H, W, DIRS8, False)
                filled_before = (mi & 512 != 0) & (gmi & (256 | 512) == 0) & (gmi & 32 != 0)
            vals = [float(d[x]) for x in cells if valid[x]]
            if not first_pass:
                vals += [float(gd[x]) for x in cells if filled_before[x]]
            if not vals:
                ctx.violation("C14/filled-without-valid-pixel-in-sight", f"{method} pixel {(r, c)} mask {b}->{a} disp {g}: no "
                                                                         f"valid pixel lies along its scan directions")
                continue
            if not (min(vals) <= g <= max(vals)):
                ctx.violation("C14/filled-outside-range-in-sight", f"{method} pixel {(r, c)} mask {b}->{a} disp {g}: valid "
                                                                   f"pixels in sight span [{min(vals)},{max(vals)}]")
                continue
            if method == "mc-cnn" and was == 256 and see_row:
                exp = None
                for cc in range(c - 1, -1, -1):
                    if valid[r, cc]:
                        exp = float(d[r, cc])
                        break
                if exp is None:
                    for cc in range(c + 1, W):
                        if valid[r, cc]:
                            exp = float(d[r, cc])
                            break
                if g != exp:
                    ctx.violation("C14/mc-cnn-occlusion-not-nearest-valid", f"pixel {(r, c)} got {g} expected {exp}")
    return n_must, n_unfillable, n_filled, valid


def body(ctx: Ctx, p: dict) -> None:
    from pandora import validation

    d, m = materialise(p)
    H, W, off = p["H"], p["W"], p["off"]
    method = p["method"]
    ds = build.disparity_dataset(d, m, int(math.floor(p["lo"])), int(math.ceil(p["hi"])), off)
    interp = validation.AbstractInterpolation(validation_method="cross_checking_accurate", interpolated_disparity=method)
    interp.interpolated_disparity(ds)
    gd = ds["disparity_map"].data
    gm = ds["validity_mask"].data.astype(int)
    n_must, n_unfillable, n_filled, valid = judge(ctx, method, d, m, gd, gm, off)
    any_valid = bool(valid.any())
    classes = [method]
    # ---- a flagged pixel is filled from VALID pixels only: re-labelling the other flagged pixels of its kind as plainly
    # invalid (bit 6) must not change it.  Sound for the kinds whose pass reads the input map only or whose earlier pass
    # treats both labels alike: mc-cnn occlusion, mc-cnn mismatch, sgm mismatch not touching an occlusion (sgm's occlusion pass
    # runs after the mismatch pass and sees its fills).
    mi = m.astype(int)
    inner = np.zeros((H, W), bool)
    inner[off:H - off, off:W - off] = True
    probes = [(r, c, bit) for bit in ((256, 512) if method == "mc-cnn" else (512,))
              for r, c in np.argwhere(((mi & bit) != 0) & inner)
              # an sgm mismatch touching an occlusion is handed to the occlusion pass, which runs after the other mismatches
              # have been filled: it legitimately depends on them
              if not (method == "sgm" and (mi[max(0, r - 1):r + 2, max(0, c - 1):c + 2] & 256).any())]
    if probes and "probe" in p:
        r, c, bit = probes[p["probe"] % len(probes)]
        others = ((mi & bit) != 0) & inner
        others[r, c] = False
        if others.any():
            m2 = mi.copy()
            m2[others] = (m2[others] & ~bit) | 64
            ds2 = build.disparity_dataset(d, m2.astype(np.uint16), int(math.floor(p["lo"])), int(math.ceil(p["hi"])), off)
            validation.AbstractInterpolation(validation_method="cross_checking_accurate",
                                             interpolated_disparity=method).interpolated_disparity(ds2)
            g2, gm2 = ds2["disparity_map"].data[r, c], int(ds2["validity_mask"].data[r, c])
            same = (g2 == gd[r, c]) or (np.isnan(g2) and np.isnan(gd[r, c]))
            if gm2 != int(gm[r, c]) or not same:
                ctx.violation("C14/fill-depends-on-other-flagged-pixels",
                              f"{method} pixel {(int(r), int(c))} (bit {bit}): {float(gd[r, c])}/{int(gm[r, c])} in the full map, "
                              f"{float(g2)}/{gm2} when the other flagged pixels of its kind are plainly invalid")
            classes.append("probe")
    if method == "mc-cnn":
        # the documented directions are symmetric top/bottom and the occlusion rule works along rows: filling the map turned
        # upside down gives the upside-down result (whatever order the pixels are visited in)
        ds3 = build.disparity_dataset(d[::-1].copy(), m[::-1].copy(), int(math.floor(p["lo"])), int(math.ceil(p["hi"])), off)
        validation.AbstractInterpolation(validation_method="cross_checking_accurate",
                                         interpolated_disparity=method).interpolated_disparity(ds3)
        fd, fm = ds3["disparity_map"].data[::-1], ds3["validity_mask"].data[::-1].astype(int)
        diff = (fm != gm) | ~((fd == gd) | (np.isnan(fd) & np.isnan(gd)))
        if diff.any():
            r, c = np.argwhere(diff)[0]
            ctx.violation("C14/fill-depends-on-visiting-order", f"mc-cnn pixel {(int(r), int(c))}: {float(gd[r, c])}/{int(gm[r, c])}, "
                                                                f"{float(fd[r, c])}/{int(fm[r, c])} when the map is processed upside down")
    if not any_valid:
        classes.append("no-valid-pixel-at-all")
    if any(not valid[r].any() for r in range(H)):
        classes.append("row-without-valid")
    if p["lo"] > 0 or p["hi"] < 0:
        classes.append("range-excludes-0")
    ctx.case(p, nontrivial=bool(n_must and n_unfillable), classes=classes)


# ---------------------------------------------------------------------------------------------------------------
# pipeline twin: the maps a real cross-checking step hands to the filler (left and right), same predicate
# ---------------------------------------------------------------------------------------------------------------
@st.composite
def pipeline_cases(draw):
    from .. import gen

    pair = draw(gen.image_pair(min_rows=6, max_rows=12, min_cols=10, max_cols=24, max_val=9, masks=True))
    steps = draw(gen.legal_pipeline(validation=False, max_post=2, windows=(1, 3, 3)))
    steps.append(["validation", {"validation_method": "cross_checking_accurate",
                                 "cross_checking_threshold": draw(st.sampled_from([0, 0.5, 1.0])),
                                 "interpolated_disparity": draw(st.sampled_from(["mc-cnn", "sgm"]))}])
    if draw(st.booleans()):
        steps.append(["validation.2", {"validation_method": "cross_checking_accurate", "cross_checking_threshold": 0,
                                       "interpolated_disparity": draw(st.sampled_from(["mc-cnn", "sgm"]))}])
    a = draw(st.integers(-4, 2))
    return {"pair": pair, "pipeline": steps, "disp": gen.clamp_interval([a, a + draw(st.integers(0, 4))], pair["W"], steps)}


def pipeline_body(ctx: Ctx, p: dict) -> None:
    from pandora import validation

    from .. import drive, gen

    kw = gen.pair_kwargs(p["pair"])
    calls = []
    saved = []
    for cls in set(validation.AbstractInterpolation.interpolation_methods_avail.values()):
        orig = cls.interpolated_disparity
        saved.append((cls, orig))

        def make(orig=orig):
            def wrapper(self, left, *a, **k):
                rec = {"d": left["disparity_map"].data.copy(), "m": left["validity_mask"].data.copy(),
                       "off": int(left.attrs["offset_row_col"])}
                res = orig(self, left, *a, **k)
                rec["gd"] = left["disparity_map"].data.copy()
                rec["gm"] = left["validity_mask"].data.astype(int)
                rec["method"] = left.attrs.get("interpolated_disparity")
                rec["class_of"] = next((n for n, c in validation.AbstractInterpolation.interpolation_methods_avail.items()
                                        if c is type(self)), type(self).__name__)
                calls.append(rec)
                return res

            return wrapper

        cls.interpolated_disparity = make()
    try:
        filled = drive.run_pipeline(pipeline=gen.pipe_dict(p["pipeline"]), disp=tuple(p["disp"]), **kw)
    finally:
        for cls, orig in saved:
            cls.interpolated_disparity = orig
    # each validation step fills with the method IT names (left map, then right map), whatever an earlier step or an earlier
    # run used
    asked = [c["interpolated_disparity"] for n, c in p["pipeline"] if n.split(".")[0] == "validation" and "interpolated_disparity" in c
             for _ in (0, 1)]
    used = [rec["class_of"] for rec in calls]
    if used != asked:
        ctx.violation("C14/filled-with-another-method", f"steps ask for {asked} (left, right per step), the fillers run were {used}")
    tot = [0, 0, 0]
    for rec in calls:
        res = judge(ctx, rec["method"], rec["d"], rec["m"], rec["gd"], rec["gm"], rec["off"])
        tot = [x + y for x, y in zip(tot, res[:3])]
    classes = [f"fill-calls={len(calls)}"] + (["unfillable"] if tot[1] else [])
    # ---- "only pixels flagged by the cross-check can change": the same pipeline without the filling option gives the
    # cross-check's verdict; every pixel it leaves unflagged is bit-identical in the filled products, left and right
    vals = [i for i, (n, _) in enumerate(p["pipeline"]) if n.split(".")[0] == "validation"]
    if len(vals) == 1 and vals[0] == len(p["pipeline"]) - 1:
        bare = [[n, {k: v for k, v in c.items() if k != "interpolated_disparity"}] for n, c in p["pipeline"]]
        plain = drive.run_pipeline(pipeline=gen.pipe_dict(bare), disp=tuple(p["disp"]), **kw)
        for side in ("left", "right"):
            d0, m0 = getattr(plain, side)["disparity_map"].data, getattr(plain, side)["validity_mask"].data.astype(int)
            d1, m1 = getattr(filled, side)["disparity_map"].data, getattr(filled, side)["validity_mask"].data.astype(int)
            unflagged = (m0 & (256 | 512)) == 0
            diff = unflagged & ((m0 != m1) | ~((d0 == d1) | (np.isnan(d0) & np.isnan(d1))))
            if diff.any():
                r, c = np.argwhere(diff)[0]
                ctx.violation("C14/pixel-not-flagged-by-the-cross-check-changed",
                              f"{side} pixel {(int(r), int(c))}: {float(d0[r, c])}/{int(m0[r, c])} without filling, "
                              f"{float(d1[r, c])}/{int(m1[r, c])} with {p['pipeline'][-1][1]['interpolated_disparity']}")
            gone = ~unflagged & ((m1 & (256 | 512 | 16 | 32)) == 0)
            if gone.any():
                r, c = np.argwhere(gone)[0]
                ctx.violation("C14/flagged-pixel-neither-kept-nor-filled",
                              f"{side} pixel {(int(r), int(c))}: mask {int(m0[r, c])} without filling, {int(m1[r, c])} with it")
        classes.append("vs-no-filling")
    ctx.case(p, nontrivial=bool(tot[2] and tot[0]), classes=classes)


CHECKS = [
    Check("direct", body, strategy=cases, budget={"quick": (12, 200), "thorough": (16, 8000)}),
    Check("pipeline", pipeline_body, strategy=pipeline_cases, budget={"quick": (4, 25), "thorough": (16, 500)}),
]
