"""C12 — confidence bands follow their definitions, bracket the winner, only add bands.

(a) direct calls of the four confidence classes on generated cost volumes, judged against bracketing references
(threshold moved by +-eps: values on a threshold boundary are counted as unspecified, not judged);
(b) pipeline level: any number / order of confidence steps with distinct suffixes inside a legal pipeline, compared
(exactly) with the same pipeline without them, plus band bookkeeping."""
from __future__ import annotations

import math

import numpy as np
from hypothesis import strategies as st

from .. import build, drive, gen
from ..core import Check, Ctx

ID = "C12"
RULE = (
    "(a) Hypothesis-generated cost volumes (1-5 x 1-6 x 2-7, integer or float costs with at least two distinct finite "
    "values, NaN holes, all-NaN pixels, ties, min and max), eta_max/eta_step in (0,1), possibility thresholds in [0,1] "
    "incl. 0 and 1, normalisation on/off, optional pre-existing bands and indicator suffix, regularisation with "
    "quantile 1; (b) generated image pairs through legal pipelines with 1-4 confidence steps of any method, any order, "
    "distinct suffixes. Non-trivial (a) = a pixel with >= 2 costs within eta_max of its best and a NaN hole; "
    "(b) = >= 2 stacked confidence steps and >= 1 invalid and >= 1 valid pixel; distinct = distinct canonical payload."
)
ASSUMPTIONS = [
    "ambiguity / risk for 'max' measures: only the structural clauses are judged (the user guide defines both with min)",
    "values within 1e-6 of an eta / possibility threshold are bracketed, not judged",
    "known finding excluded by construction: normalised ambiguity is NaN when the clipped ambiguity map is constant",
]

EPS = 1e-6


def etas_of(emax, estep):
    return np.arange(0.0, np.float32(emax), np.float32(estep))


def ref_amb_risk(cv, emax, estep):
    """bracketing reference (min measures): returns lo/hi for raw ambiguity, risk_max, risk_min"""
    mn, mx = np.nanmin(cv), np.nanmax(cv)
    et = etas_of(emax, estep)
    H, W, D = cv.shape
    z = lambda: np.zeros((H, W))  # noqa: E731
    a_lo, a_hi, x_lo, x_hi, n_lo, n_hi = z(), z(), z(), z(), z(), z()
    multi = False
    for r in range(H):
        for c in range(W):
            cur = cv[r, c].astype(np.float64)
            if np.isnan(cur).all():
                a_lo[r, c] = a_hi[r, c] = len(et) * D
                x_lo[r, c] = x_hi[r, c] = n_lo[r, c] = n_hi[r, c] = np.nan
                continue
            n = (cur - mn) / (mx - mn)
            nmin = np.nanmin(n)
            nn = np.where(np.isnan(n), -np.inf, n)
            rl, rh, ml, mh = [], [], [], []
            for e in et:
                lo = (nn <= nmin + e - EPS) | (nn <= nmin)
                hi = nn <= nmin + e + EPS
                a_lo[r, c] += lo.sum()
                a_hi[r, c] += hi.sum()

                def spread(m):
                    i = np.where(m)[0]
                    return i.max() - i.min()

                rl.append(spread(lo))
                rh.append(spread(hi))
                ml.append(1 + spread(lo) - hi.sum())
                mh.append(1 + spread(hi) - lo.sum())
            if (np.isfinite(nn) & (nn <= nmin + et[-1])).sum() >= 2:
                multi = True
            x_lo[r, c], x_hi[r, c] = np.mean(rl), np.mean(rh)
            n_lo[r, c], n_hi[r, c] = np.mean(ml), np.mean(mh)
    return a_lo, a_hi, x_lo, x_hi, n_lo, n_hi, multi


def ref_bounds(cv, axis, thr, type_measure):
    """exact restatement; returns (inf_lo, inf_hi, sup_lo, sup_hi): admissible range of each bound under thr +- eps"""
    mn, mx = np.nanmin(cv), np.nanmax(cv)
    H, W, D = cv.shape
    tf = -1.0 if type_measure == "min" else 1.0
    out = [np.full((H, W), np.nan) for _ in range(4)]
    for r in range(H):
        for c in range(W):
            cur = cv[r, c].astype(np.float64)
            if np.isnan(cur).all():
                continue
            n = tf * (cur - mn) / (mx - mn)
            poss = n + 1 - np.nanmax(n)
            bests = [poss == np.nanmax(poss), poss >= np.nanmax(poss) - 1e-6]  # float32 may merge near-equal costs

            def bounds(t, best):
                s = np.where(~np.isnan(poss) & (poss >= t))[0]
                s = s if len(s) else np.where(best)[0]
                lo, hi = s.min(), s.max()
                if best[lo]:
                    lo = max(0, lo - 1)
                if best[hi]:
                    hi = min(D - 1, hi + 1)
                return lo, hi

            variants = [bounds(t, b) for t in (thr + EPS, thr - EPS) for b in bests]
            los = [v[0] for v in variants]
            his = [v[1] for v in variants]
            out[0][r, c], out[1][r, c] = axis[min(los)], axis[max(los)]
            out[2][r, c], out[3][r, c] = axis[min(his)], axis[max(his)]
    return out


def wta(cv, axis, type_measure):
    H, W, D = cv.shape
    out = np.full((H, W), np.nan)
    for r in range(H):
        for c in range(W):
            cur = cv[r, c]
            if np.isnan(cur).all():
                continue
            k = int(np.nanargmin(cur)) if type_measure == "min" else int(np.nanargmax(cur))
            out[r, c] = axis[k]
    return out


# ---------------------------------------------------------------------------------------------------------------
@st.composite
def direct_cases(draw):
    H, W = draw(st.integers(1, 5)), draw(st.integers(1, 6))
    nd = draw(st.integers(2, 7))
    ints = draw(st.booleans())
    hi = draw(st.sampled_from([4, 50, 1000]))
    cell = (st.one_of(st.integers(0, hi), st.integers(0, hi), st.integers(0, hi), st.just("NaN")) if ints else
            st.one_of(st.floats(0, 100, width=32), st.floats(0, 100, width=32), st.just("NaN")))
    cv = draw(st.lists(st.lists(st.lists(cell, min_size=nd, max_size=nd), min_size=W, max_size=W),
                       min_size=H, max_size=H))
    subpix = draw(st.sampled_from([1, 1, 2]))
    d0 = draw(st.integers(-4, 2))
    disps = [d0 + k / subpix for k in range(nd)] if subpix != 1 else [d0 + k for k in range(nd)]
    win = draw(st.sampled_from([1, 3]))
    Hi, Wi = H + win - 1, W + win - 1
    return {"H": H, "W": W, "cv": cv, "disps": disps, "subpix": subpix, "type": draw(st.sampled_from(["min", "min", "max"])),
            "method": draw(st.sampled_from(["ambiguity", "ambiguity", "risk", "interval_bounds", "interval_bounds",
                                            "std_intensity"])),
            "eta_max": draw(st.sampled_from([0.7, 0.3, 0.99, 0.05, 0.5])),
            "eta_step": draw(st.sampled_from([0.01, 0.1, 0.25, 0.003, 0.5])),
            "thr": draw(st.sampled_from([0.9, 0.0, 1.0, 0.5, 0.99, 0.25])),
            "normalization": draw(st.booleans()), "suffix": draw(st.sampled_from(["", "", ".a", ".x1"])),
            "nold": draw(st.integers(0, 2)), "regularization": draw(st.booleans()),
            "akernel": draw(st.sampled_from([1, 3, 5, 5])), "vdepth": draw(st.integers(0, 2)),
            "origin": draw(st.sampled_from([None, None, [3, 2], [50, 17]])),
            "flat": draw(st.sampled_from([None, None, None, None, 65535, 5001, 4097, 1234.5, 0])),
            "athr": draw(st.sampled_from([0.6, 0.4, 0.8, 0.0, 1.0])),
            "win": win, "img": draw(st.lists(st.lists(st.integers(0, 9), min_size=Wi, max_size=Wi),
                                             min_size=Hi, max_size=Hi))}


def direct_body(ctx: Ctx, p: dict) -> None:
    from pandora import cost_volume_confidence as cvc

    inner = build.arr(p["cv"])
    h, w, nd = inner.shape
    fin = inner[~np.isnan(inner)]
    if fin.size == 0 or fin.min() == fin.max():
        # the property quantifies over volumes with at least two distinct finite costs
        inner[0, 0, 0], inner[0, 0, 1] = 0.0, 1.0
    off = (p["win"] - 1) // 2
    H, W = h + 2 * off, w + 2 * off
    cv = np.full((H, W, nd), np.nan, dtype=np.float32)
    cv[off:H - off, off:W - off] = inner
    img = np.array(p["img"], dtype=np.float32)
    if p.get("flat") is not None:
        # a saturated / constant scene at deep radiometry: every window has zero variance (and squares that do not fit float32)
        img = np.full_like(img, np.float32(p["flat"]))
    tm, method, sfx = p["type"], p["method"], p["suffix"]
    old = {}
    for k in range(p["nold"]):
        old[f"confidence_from_old{k}"] = (np.arange(H)[:, None] * 1.5 + np.arange(W)[None, :] + k).astype(np.float32)
    if method == "interval_bounds" and p["regularization"]:
        old["confidence_from_ambiguity" + sfx] = (((np.arange(H)[:, None] * 3 + np.arange(W)[None, :]) % 7) / 7.0).astype(np.float32)
    r0, c0 = p.get("origin") or (0, 0)
    cvds = build.cost_volume_dataset(cv, p["disps"], tm, off, p["subpix"], None, old or None, row0=r0, col0=c0)
    cvds.attrs["window_size"] = p["win"]
    left = build.image_dataset(img, None, (int(math.floor(p["disps"][0])), int(math.ceil(p["disps"][-1]))), row0=r0, col0=c0)
    cfg = {"confidence_method": method, "indicator": sfx}
    if method in ("ambiguity", "risk"):
        cfg.update(eta_max=p["eta_max"], eta_step=p["eta_step"])
    if method == "ambiguity":
        cfg["normalization"] = p["normalization"]
    if method == "interval_bounds":
        cfg.update(possibility_threshold=float(p["thr"]), regularization=p["regularization"],
                   ambiguity_indicator=sfx[1:] if sfx else "", quantile_regularization=1.0)
        if "akernel" in p:
            cfg.update(ambiguity_kernel_size=p["akernel"], vertical_depth=p["vdepth"], ambiguity_threshold=float(p["athr"]))
    before = build.snapshot(cvds)
    obj = cvc.AbstractCostVolumeConfidence(**cfg)
    _, out = obj.confidence_prediction(None, left, left, cvds)
    names = list(out.coords["indicator"].data)
    newnames = {
        "ambiguity": ["confidence_from_ambiguity" + sfx],
        "risk": ["confidence_from_risk_max" + sfx, "confidence_from_risk_min" + sfx],
        "interval_bounds": ["confidence_from_interval_bounds_inf" + sfx, "confidence_from_interval_bounds_sup" + sfx],
        "std_intensity": ["confidence_from_intensity_std" + sfx],
    }[method]
    if names != list(old) + newnames:
        ctx.violation("C12/band-names-wrong", f"{method}: {names} expected {list(old) + newnames}")
        return
    for k, name in enumerate(old):
        if not np.array_equal(out["confidence_measure"].data[:, :, k], old[name], equal_nan=True):
            ctx.violation("C12/existing-band-altered", f"{method} altered {name}")
    if not np.array_equal(out["cost_volume"].data, cv, equal_nan=True):
        ctx.violation("C12/cost-volume-altered", method)
    d = [x for x in build.snapshot_diff(before, build.snapshot(out)) if x not in ("var.confidence_measure", "coord.indicator",
                                                                                  "vars.confidence_measure:presence",
                                                                                  "coords.indicator:presence")]
    if d:
        ctx.violation("C12/other-parts-modified", f"{method}: {d}")
    band = {n: out["confidence_measure"].sel(indicator=n).data.astype(np.float64) for n in newnames}
    allnan = np.isnan(cv).all(axis=2)
    nontrivial = False
    classes = [method, tm]
    if method == "std_intensity":
        g = band[newnames[0]]
        for r in range(H):
            for c in range(W):
                if r < off or r >= H - off or c < off or c >= W - off:
                    if not math.isnan(g[r, c]):
                        ctx.violation("C12/std-border-not-nan", f"{(r, c)}: {g[r, c]}")
                    continue
                e = float(np.std(img[r - off:r + off + 1, c - off:c + off + 1].astype(np.float64)))
                if not (abs(g[r, c] - e) <= 1e-5 * max(1.0, e) + 1e-5):  # NaN is wrong too
                    ctx.violation("C12/std-intensity-wrong", f"{(r, c)}: {g[r, c]} expected {e} win={p['win']}")
        nontrivial = True
    elif method in ("ambiguity", "risk"):
        a_lo, a_hi, x_lo, x_hi, n_lo, n_hi, multi = ref_amb_risk(cv, p["eta_max"], p["eta_step"])
        nontrivial = bool(multi and np.isnan(cv[~allnan]).any())
        if method == "ambiguity":
            g = band[newnames[0]]
            if p["normalization"]:
                classes.append("normalised")
                # raw ambiguity unknown inside the bracket; recompute the normalisation only when the bracket is tight
                if np.isnan(g).any() or (g < -1e-6).any() or (g > 1 + 1e-6).any():
                    # the raw count map is constant (for some raw map inside the bracket) <=> 0/0 in the normalisation
                    raw_const = bool(a_lo.max() <= a_hi.min())
                    sig = ("C12/normalised-ambiguity-nan-on-constant-map" if (raw_const and np.isnan(g).all())
                           else "C12/normalised-ambiguity-not-in-0-1")
                    ctx.violation(sig, f"values {np.unique(g)[:5]}")
                elif tm == "min" and (a_lo == a_hi).all():
                    raw = a_lo
                    lo_p, hi_p = np.percentile(raw, 1.0), np.percentile(raw, 99.0)
                    cl = np.clip(raw, lo_p, hi_p)
                    if cl.max() > cl.min():
                        e = 1 - (cl - cl.min()) / (cl.max() - cl.min())
                        if (np.abs(g - e) > 1e-5).any():
                            r, c = np.argwhere(np.abs(g - e) > 1e-5)[0]
                            ctx.violation("C12/normalised-ambiguity-wrong", f"{(int(r), int(c))}: {g[r, c]} expected {e[r, c]}")
                    ctx.judged += H * W
                else:
                    ctx.unspecified += 1
            elif tm == "min":
                raw = 1 - g
                ok = (raw >= a_lo - 1e-3) & (raw <= a_hi + 1e-3)
                if not ok.all():
                    r, c = np.argwhere(~ok)[0]
                    ctx.violation("C12/ambiguity-count-wrong", f"{(int(r), int(c))}: count {raw[r, c]} not in "
                                  f"[{a_lo[r, c]},{a_hi[r, c]}] costs={cv[r, c].tolist()} eta=({p['eta_max']},{p['eta_step']})")
                ctx.judged += H * W
                ctx.unspecified += int((a_lo != a_hi).sum())
        else:
            gmax, gmin = band[newnames[0]], band[newnames[1]]
            if (np.isnan(gmax) != allnan).any() or (np.isnan(gmin) != allnan).any():
                ctx.violation("C12/risk-nan-pattern", "risk must be NaN exactly on pixels without any cost")
            v = ~allnan
            if ((gmin[v] < -1e-5) | (gmin[v] > gmax[v] + 1e-5)).any():
                ctx.violation("C12/risk-order", f"0 <= risk_min <= risk_max violated: min={gmin[v]} max={gmax[v]}")
            if tm == "min":
                okx = allnan | ((gmax >= x_lo - 1e-4) & (gmax <= x_hi + 1e-4))
                okn = allnan | ((gmin >= n_lo - 1e-4) & (gmin <= n_hi + 1e-4))
                if not okx.all():
                    r, c = np.argwhere(~okx)[0]
                    ctx.violation("C12/risk-max-wrong", f"{(int(r), int(c))}: {gmax[r, c]} not in [{x_lo[r, c]},{x_hi[r, c]}] "
                                  f"costs={cv[r, c].tolist()} eta=({p['eta_max']},{p['eta_step']})")
                if not okn.all():
                    r, c = np.argwhere(~okn)[0]
                    ctx.violation("C12/risk-min-wrong", f"{(int(r), int(c))}: {gmin[r, c]} not in [{n_lo[r, c]},{n_hi[r, c]}] "
                                  f"costs={cv[r, c].tolist()} eta=({p['eta_max']},{p['eta_step']})")
                ctx.judged += H * W
    else:
        ginf, gsup = band[newnames[0]], band[newnames[1]]
        axis = [float(a) for a in p["disps"]]
        w_ = wta(cv, axis, tm)
        v = ~allnan
        if (np.isnan(ginf[v]) | np.isnan(gsup[v])).any():
            ctx.violation("C12/interval-bound-nan-on-valid-pixel", "")
        elif ((ginf[v] > w_[v]) | (gsup[v] < w_[v])).any():
            r, c = np.argwhere(v & ((ginf > w_) | (gsup < w_)))[0]
            ctx.violation("C12/interval-does-not-bracket-winner", f"{(int(r), int(c))}: [{ginf[r, c]},{gsup[r, c]}] winner {w_[r, c]} "
                          f"costs={cv[r, c].tolist()} thr={p['thr']} {tm}")
        i_lo, i_hi, s_lo, s_hi = ref_bounds(cv, axis, float(p["thr"]), tm)
        if p["regularization"]:
            classes.append("regularised")
            bad = v & ((ginf > i_hi + 1e-6) | (gsup < s_lo - 1e-6))
            if bad.any():
                r, c = np.argwhere(bad)[0]
                ctx.violation("C12/regularisation-narrowed-interval", f"{(int(r), int(c))}: [{ginf[r, c]},{gsup[r, c]}] raw "
                              f"[{i_hi[r, c]},{s_lo[r, c]}]")
        else:
            bad = v & ((ginf < i_lo - 1e-6) | (ginf > i_hi + 1e-6) | (gsup < s_lo - 1e-6) | (gsup > s_hi + 1e-6))
            if bad.any():
                r, c = np.argwhere(bad)[0]
                ctx.violation("C12/interval-bounds-wrong", f"{(int(r), int(c))}: [{ginf[r, c]},{gsup[r, c]}] expected inf in "
                              f"[{i_lo[r, c]},{i_hi[r, c]}] sup in [{s_lo[r, c]},{s_hi[r, c]}] costs={cv[r, c].tolist()} "
                              f"thr={p['thr']} {tm}")
            ctx.unspecified += int((v & ((i_lo != i_hi) | (s_lo != s_hi))).sum())
        ctx.judged += int(v.sum())
        nontrivial = bool(np.isnan(cv[v]).any() and (gsup[v] - ginf[v] >= 2 * (axis[1] - axis[0])).any())
    ctx.case(p, nontrivial=nontrivial, classes=classes)


# ---------------------------------------------------------------------------------------------------------------
CONF_METHODS = ["ambiguity", "risk", "interval_bounds", "std_intensity"]


@st.composite
def pipeline_cases(draw):
    pair = draw(gen.image_pair(min_rows=7, max_rows=11, min_cols=8, max_cols=13, max_val=9, masks=True))
    measure = draw(st.sampled_from(["sad", "ssd", "census", "zncc"]))
    win = draw(st.sampled_from([1, 3, 5] if measure != "census" else [3, 5]))
    n = draw(st.integers(1, 4))
    confs = []
    for i in range(n):
        m = draw(st.sampled_from(CONF_METHODS))
        cfg = {"confidence_method": m}
        if m in ("ambiguity", "risk") and draw(st.booleans()):
            cfg["eta_max"] = draw(st.sampled_from([0.3, 0.7, 0.9]))
            cfg["eta_step"] = draw(st.sampled_from([0.05, 0.1, 0.01]))
        if m == "ambiguity" and draw(st.booleans()):
            cfg["normalization"] = False
        if m == "interval_bounds" and draw(st.booleans()):
            cfg["possibility_threshold"] = draw(st.sampled_from([0.5, 0.9, 1.0]))
        name = f"cost_volume_confidence.s{i}" if (n > 1 or draw(st.booleans())) else "cost_volume_confidence"
        amb = [nm for nm, c in confs if c["confidence_method"] == "ambiguity"]
        if m == "interval_bounds" and amb and draw(st.booleans()):
            # regularised intervals read the ambiguity band of an earlier step
            cfg.update(regularization=True, ambiguity_indicator=amb[-1].partition(".")[2],
                       ambiguity_kernel_size=draw(st.sampled_from([1, 3, 5])), vertical_depth=draw(st.integers(0, 2)))
        confs.append([name, cfg])
    agg = draw(st.booleans())
    npre = draw(st.integers(0, n)) if agg else n
    steps = [["matching_cost", {"matching_cost_method": measure, "window_size": win,
                                "subpix": draw(st.sampled_from([1, 1, 2]))}]]
    steps += confs[:npre]
    if agg:
        steps.append(["aggregation", {"aggregation_method": "cbca", "cbca_distance": 3}])
    steps += confs[npre:]
    steps.append(["disparity", {"disparity_method": "wta", "invalid_disparity": draw(st.sampled_from([-9999, "NaN"]))}])
    tail = draw(st.sampled_from(["none", "refine", "filter", "validation", "validation+filter"]))
    if tail == "refine":
        steps.append(["refinement", {"refinement_method": "vfit"}])
    if tail in ("filter", "validation+filter"):
        steps.append(["filter", {"filter_method": "median"}])
    if tail.startswith("validation"):
        steps.append(["validation", {"validation_method": "cross_checking_accurate"}])
    dmin = draw(st.integers(-3, 0))
    return {"pair": pair, "pipeline": steps, "disp": gen.clamp_interval([dmin, dmin + draw(st.integers(1, 4))], pair["W"], steps),
            # the same pair labelled with the row / column coordinates of a tile of a larger image
            "origin": draw(st.sampled_from([None, None, [2, 3], [40, 100], [0, 7]]))}


def pipeline_body(ctx: Ctx, p: dict) -> None:
    kw = gen.pair_kwargs(p["pair"])
    full = gen.pipe_dict(p["pipeline"])
    bare = {k: v for k, v in full.items() if not k.startswith("cost_volume_confidence")}
    a = drive.run_pipeline(pipeline=full, disp=tuple(p["disp"]), **kw)
    b = drive.run_pipeline(pipeline=bare, disp=tuple(p["disp"]), **kw)
    if p.get("origin"):
        # band values are defined by costs and radiometry, not by where the coordinates start
        t = drive.run_pipeline(pipeline=gen.pipe_dict(p["pipeline"]), disp=tuple(p["disp"]), row0=p["origin"][0], col0=p["origin"][1], **kw)
        for side in ("left", "right"):
            da, dt = getattr(a, side), getattr(t, side)
            if "confidence_measure" in da:
                if "confidence_measure" not in dt or list(dt.coords["indicator"].data) != list(da.coords["indicator"].data):
                    ctx.violation("C12/bands-depend-on-coordinate-origin", f"{side}: band list differs with origin {p['origin']}")
                elif not np.array_equal(da["confidence_measure"].data, dt["confidence_measure"].data, equal_nan=True):
                    k = int(np.argwhere(~((da["confidence_measure"].data == dt["confidence_measure"].data) |
                                          (np.isnan(da["confidence_measure"].data) & np.isnan(dt["confidence_measure"].data))))[0][2])
                    ctx.violation("C12/bands-depend-on-coordinate-origin",
                                  f"{side}: band {da.coords['indicator'].data[k]} differs when rows / columns start at {p['origin']}")
    for side in ("left", "right"):
        da, db = getattr(a, side), getattr(b, side)
        if ("disparity_map" in da) != ("disparity_map" in db):
            ctx.violation("C12/products-presence-differs", side)
            continue
        if "disparity_map" not in da:
            continue
        if not np.array_equal(da["disparity_map"].data, db["disparity_map"].data, equal_nan=True):
            ctx.violation("C12/disparity-map-changed-by-confidence-step", side)
        if not np.array_equal(da["validity_mask"].data, db["validity_mask"].data):
            ctx.violation("C12/validity-mask-changed-by-confidence-step", side)
    if not np.array_equal(a.machine.left_cv["cost_volume"].data, b.machine.left_cv["cost_volume"].data, equal_nan=True):
        ctx.violation("C12/cost-volume-changed-by-confidence-step", "left cost volume differs")
    # bookkeeping: names in step order
    exp = []
    for name, cfg in p["pipeline"]:
        if not name.startswith("cost_volume_confidence"):
            continue
        sfx = ("." + name.split(".")[1]) if "." in name else ""
        m = cfg["confidence_method"]
        exp += {"ambiguity": ["confidence_from_ambiguity" + sfx],
                "risk": ["confidence_from_risk_max" + sfx, "confidence_from_risk_min" + sfx],
                "interval_bounds": ["confidence_from_interval_bounds_inf" + sfx, "confidence_from_interval_bounds_sup" + sfx],
                "std_intensity": ["confidence_from_intensity_std" + sfx]}[m]
    extra = ["confidence_from_left_right_consistency"] if "validation" in full else []
    got = list(a.left.coords["indicator"].data) if "confidence_measure" in a.left else []
    if got != exp + extra:
        ctx.violation("C12/pipeline-band-names-wrong", f"{got} expected {exp + extra}")
    else:
        # interval bounds bracket the winner-takes-all disparity for every valid pixel (before any later step moves it)
        cvd = a.machine.left_cv
        finite = cvd["cost_volume"].data[~np.isnan(cvd["cost_volume"].data)]
        # the property quantifies over cost volumes with at least two distinct finite costs
        if "disp_indices" in cvd and finite.size and finite.min() != finite.max():
            wmap = cvd["disp_indices"].data
            vm = a.left["validity_mask"].data
            for name in got:
                if name.startswith("confidence_from_interval_bounds_inf"):
                    sup = name.replace("_inf", "_sup")
                    # bounds are computed on the cost volume as it was when the step ran; only a step placed after the
                    # last cost-volume-changing step must bracket the final winner
                    names_list = [n for n, _ in p["pipeline"]]
                    step = "cost_volume_confidence" + name[len("confidence_from_interval_bounds_inf"):]
                    if "aggregation" in names_list and names_list.index(step) < names_list.index("aggregation"):
                        continue
                    lo = a.left["confidence_measure"].sel(indicator=name).data
                    hi = a.left["confidence_measure"].sel(indicator=sup).data
                    valid = (vm & 0b11000011) == 0
                    bad = valid & ~((lo <= wmap) & (wmap <= hi))
                    if bad.any():
                        r, c = np.argwhere(bad)[0]
                        ctx.violation("C12/pipeline-interval-does-not-bracket-winner",
                                      f"{name} pixel {(int(r), int(c))}: [{lo[r, c]},{hi[r, c]}] winner {wmap[r, c]}")
    vm = a.left["validity_mask"].data
    n_conf = sum(1 for k in full if k.startswith("cost_volume_confidence"))
    ctx.case(p, nontrivial=bool(n_conf >= 2 and ((vm & 0b1111000011) != 0).any() and ((vm & 0b1111000011) == 0).any()),
             classes=[f"steps={n_conf}"] + (["validation"] if "validation" in full else []))


CHECKS = [
    Check("direct", direct_body, strategy=direct_cases, budget={"quick": (8, 120), "thorough": (16, 2000)}),
    Check("pipeline", pipeline_body, strategy=pipeline_cases, budget={"quick": (8, 20), "thorough": (16, 500)}),
]
