"""C06 — refinement moves a disparity by at most half a sample, never for the worse, and is total.

(a) direct calls of `AbstractRefinement(**cfg).subpixel_refinement(cv, disp)` on generated cost volumes and
disparity maps (winner samples, other on-sample values, off-sample values, pre-set bit 3);
(b) pipeline level: the state received by every refinement step of a legal pipeline (after filters, after a
previous refinement) is captured by harness-side wrappers and judged by the same per-pixel reference."""
from __future__ import annotations

import math

import numpy as np
from hypothesis import strategies as st

from .. import build, drive, gen
from ..core import Check, Ctx

ID = "C06"
RULE = (
    "(a) Hypothesis-generated cost volumes (1-5 x 1-6 x 1-7 samples, integer or arbitrary costs, NaN holes, min/max, "
    "subpix 1/2/4) with disparity maps whose valid pixels sit on the winner sample, on another sample, or off-sample, "
    "with bit 3 possibly pre-set; both methods. (b) generated image pairs run through pipelines "
    "matching_cost [cbca] disparity [filter] refinement [filter] [refinement.2], the state received by each "
    "refinement captured. Non-trivial = the judged pixels contain at least one refined pixel, one stopped pixel and "
    "one degenerate triple (two equal neighbours or flat); distinct = distinct canonical payload."
)
ASSUMPTIONS = [
    "valid pixels whose received disparity is off-sample (after an averaging filter or a previous refinement) or whose "
    "centre cost is NaN are judged on the weak clauses only: no exception, finite result, invalid pixels untouched, "
    "only bit 3 may change; off-sample pixels additionally: at most half a sample away from the received value, and "
    "unchanged when bit 3 is newly raised",
    "tolerance 1e-5 relative / 1e-6 absolute on refined disparity and fitted cost (float32 storage)",
]

INV = 0b01111000011


def ref_fit(method: str, c0: float, c1: float, c2: float, type_measure: str):
    """(shift in samples, fitted cost) of the V-fit / parabola through (-1,c0),(0,c1),(1,c2); c1 is an extremum."""
    s = -1.0 if type_measure == "max" else 1.0
    a0, a1, a2 = s * c0, s * c1, s * c2  # now a minimisation problem
    if method == "vfit":
        slope = max(a0 - a1, a2 - a1)
        if slope <= 0:
            return 0.0, c1
        x = (a0 - a2) / (2 * slope)
        # vertex of the symmetric V: the steeper side fixes the slope, the other branch passes through its point
        y = (a2 + slope * (x - 1)) if a0 > a2 else (a0 - slope * (x + 1))
        return x, s * y
    curv = a0 - 2 * a1 + a2
    if curv <= 0:
        return 0.0, c1
    x = (a0 - a2) / (2 * curv)
    x = min(1.0, max(-1.0, x))
    y = a1 - (a2 - a0) ** 2 / (8 * curv)
    return x, s * y


def judge(ctx: Ctx, tag: str, method: str, cv, axis, type_measure, subpix, d_b, m_b, d_a, m_a, coeff):
    """per-pixel oracle; returns (n_refined, n_stopped, n_degenerate)"""
    H, W, nd = cv.shape
    s = -1.0 if type_measure == "max" else 1.0
    n_ref = n_stop = n_deg = 0
    axis = [float(a) for a in axis]
    for r in range(H):
        for c in range(W):
            mb, ma = int(m_b[r, c]), int(m_a[r, c])
            db, da = float(d_b[r, c]), float(d_a[r, c])
            if mb & INV:
                same = (da == db) or (math.isnan(da) and math.isnan(db))
                if not same or ma != mb:
                    ctx.violation("C06/invalid-pixel-touched", f"{tag} pixel {(r, c)} disp {db}->{da} mask {mb}->{ma}")
                if not math.isnan(float(coeff[r, c])):
                    ctx.violation("C06/invalid-pixel-coefficient-not-nan", f"{tag} pixel {(r, c)} coeff {coeff[r, c]}")
                continue
            if (ma ^ mb) & ~8 or (ma & mb) != mb:
                ctx.violation("C06/other-bit-changed", f"{tag} pixel {(r, c)} mask {mb}->{ma} ({method})")
                continue
            if not math.isfinite(da):
                ctx.violation("C06/non-finite-refined-disparity", f"{tag} pixel {(r, c)} disp {db}->{da}")
                continue
            k = None
            for i, a in enumerate(axis):
                if a == db:
                    k = i
            if k is None or math.isnan(float(cv[r, c, k])):
                ctx.unspecified += 1
                # off-sample received disparity (after an averaging filter or an earlier refinement): which triple is fitted
                # is not specified, but the pixel still moves by at most half a sample from what it RECEIVED, and a pixel
                # whose interpolation is stopped (bit 3 newly raised) is left exactly where it was
                if k is None:
                    if abs(da - db) > 0.5 / subpix + 1e-6 + 1e-5 * max(1.0, abs(db)):
                        ctx.violation("C06/moved-more-than-half-sample", f"{tag} pixel {(r, c)} off-sample disp {db}->{da} "
                                                                         f"subpix={subpix} ({method})")
                    elif (ma & 8) and not (mb & 8) and da != db:
                        ctx.violation("C06/stopped-pixel-moved", f"{tag} pixel {(r, c)} off-sample disp {db}->{da}, bit 3 raised")
                continue
            ctx.judged += 1
            c1 = float(cv[r, c, k])
            c0 = float(cv[r, c, k - 1]) if k > 0 else math.nan
            c2 = float(cv[r, c, k + 1]) if k < nd - 1 else math.nan
            stop = (k == 0 or k == nd - 1 or math.isnan(c0) or math.isnan(c2) or s * c1 > s * c0 or s * c1 > s * c2)
            if stop:
                n_stop += 1
                if da != db:
                    ctx.violation("C06/stopped-pixel-moved", f"{tag} pixel {(r, c)} triple={(c0, c1, c2)} k={k}/{nd} disp {db}->{da}")
                if ma != (mb | 8):
                    ctx.violation("C06/stopped-pixel-bit3-wrong", f"{tag} pixel {(r, c)} triple={(c0, c1, c2)} k={k}/{nd} "
                                                                  f"mask {mb}->{ma} expected {mb | 8}")
                if float(coeff[r, c]) != c1:
                    ctx.violation("C06/stopped-pixel-coefficient", f"{tag} pixel {(r, c)} coeff {coeff[r, c]} expected {c1}")
                continue
            n_ref += 1
            if c0 == c1 or c2 == c1:
                n_deg += 1
            # numerically flat triples (differences below 1e-12, e.g. denormal costs): the fit is ill-conditioned and the
            # implementation may legitimately keep the sample; only the half-sample bound is judged there
            scale = max(abs(c0), abs(c1), abs(c2), 1.0)
            if max(abs(c0 - c1), abs(c2 - c1)) < 1e-12 * scale and not (c0 == c1 == c2):
                ctx.unspecified += 1
                if abs(da - db) > 0.5 / subpix + 1e-6:
                    ctx.violation("C06/moved-more-than-half-sample", f"{tag} pixel {(r, c)} triple={(c0, c1, c2)} disp {db}->{da}")
                continue
            if ma != mb:
                ctx.violation("C06/refined-pixel-bit3-changed", f"{tag} pixel {(r, c)} triple={(c0, c1, c2)} mask {mb}->{ma}")
            x, y = ref_fit(method, c0, c1, c2, type_measure)
            exp = db + x / subpix
            tol = 1e-6 + 1e-5 * max(1.0, abs(exp))
            if abs(da - db) > 0.5 / subpix + tol:
                ctx.violation("C06/moved-more-than-half-sample", f"{tag} pixel {(r, c)} triple={(c0, c1, c2)} disp {db}->{da} "
                                                                 f"subpix={subpix} ({method})")
            elif abs(da - exp) > tol:
                ctx.violation("C06/not-the-fit-optimum", f"{tag} pixel {(r, c)} triple={(c0, c1, c2)} disp {db}->{da} expected "
                                                         f"{exp} ({method}, {type_measure}, subpix {subpix})")
            co = float(coeff[r, c])
            ctol = 1e-6 + 1e-5 * max(1.0, abs(y), abs(c1))
            if not (abs(co - y) <= ctol):  # a NaN coefficient is wrong too
                ctx.violation("C06/coefficient-not-fitted-cost", f"{tag} pixel {(r, c)} triple={(c0, c1, c2)} coeff {co} "
                                                                 f"expected {y} ({method}, {type_measure})")
            if s * co > s * c1 + ctol:
                ctx.violation("C06/coefficient-worse-than-sample", f"{tag} pixel {(r, c)} triple={(c0, c1, c2)} coeff {co}")
    return n_ref, n_stop, n_deg


# ---------------------------------------------------------------------------------------------------------------
# (a) direct
# ---------------------------------------------------------------------------------------------------------------
@st.composite
def direct_cases(draw):
    H, W = draw(st.integers(1, 5)), draw(st.integers(1, 6))
    nd = draw(st.integers(1, 7))
    subpix = draw(st.sampled_from([1, 1, 2, 4]))
    d0 = draw(st.integers(-5, 3))
    disps = [d0 + k / subpix for k in range(nd)] if subpix != 1 else [d0 + k for k in range(nd)]
    ints = draw(st.booleans())
    cell = (st.one_of(st.integers(0, 4), st.integers(0, 4), st.integers(0, 4), st.just("NaN")) if ints else
            st.one_of(st.floats(-50, 50, width=32), st.floats(-50, 50, width=32), st.just("NaN"), st.integers(0, 2)))
    cv = draw(st.lists(st.lists(st.lists(cell, min_size=nd, max_size=nd), min_size=W, max_size=W),
                       min_size=H, max_size=H))
    # per pixel: how the received disparity is chosen
    how = draw(st.lists(st.lists(st.sampled_from(["wta", "wta", "wta", "wta", "sample", "sample", "off", "inv"]),
                                 min_size=W, max_size=W), min_size=H, max_size=H))
    pick = draw(st.lists(st.lists(st.integers(0, 40), min_size=W, max_size=W), min_size=H, max_size=H))
    bit3 = draw(st.sampled_from([0, 0, 8]))
    return {"H": H, "W": W, "disps": disps, "subpix": subpix, "type": draw(st.sampled_from(["min", "max"])),
            "method": draw(st.sampled_from(["vfit", "quadratic"])), "cv": cv, "how": how, "pick": pick, "bit3": bit3,
            "invalid_value": draw(st.sampled_from(["NaN", -9999]))}


def direct_body(ctx: Ctx, p: dict) -> None:
    from pandora import refinement

    cv = build.arr(p["cv"])
    H, W, nd = cv.shape
    disps = p["disps"]
    tm = p["type"]
    invv = np.float32(np.nan) if p["invalid_value"] == "NaN" else np.float32(p["invalid_value"])
    d = np.zeros((H, W), dtype=np.float32)
    m = np.zeros((H, W), dtype=np.uint16)
    info = [0, 4, p["bit3"], 4 | p["bit3"]]
    for r in range(H):
        for c in range(W):
            col = cv[r, c]
            fin = ~np.isnan(col)
            how = p["how"][r][c]
            if not fin.any() or how == "inv":
                d[r, c] = invv
                m[r, c] = [2, 1, 64, 128, 256, 512][p["pick"][r][c] % 6] if fin.any() else [2, 66, 130][p["pick"][r][c] % 3]
                continue
            m[r, c] = info[p["pick"][r][c] % 4]
            if how == "wta":
                vals = np.where(fin, col, np.inf if tm == "min" else -np.inf)
                k = int(np.argmin(vals)) if tm == "min" else int(np.argmax(vals))
                d[r, c] = disps[k]
            elif how == "sample":
                d[r, c] = disps[p["pick"][r][c] % nd]
            else:
                k = p["pick"][r][c] % nd
                d[r, c] = disps[k] + (0.3 / p["subpix"] if k < nd - 1 else -0.3 / p["subpix"])
    cvds = build.cost_volume_dataset(cv, disps, tm, 0, p["subpix"])
    ds = build.disparity_dataset(d, m, int(math.floor(disps[0])), int(math.ceil(disps[-1])), 0,
                                 extra_attrs={"type_measure": tm, "subpixel": p["subpix"]})
    cv_before = build.snapshot(cvds)
    ref = refinement.AbstractRefinement(refinement_method=p["method"])
    ref.subpixel_refinement(cvds, ds)
    if build.snapshot_diff(cv_before, build.snapshot(cvds)):
        ctx.violation("C06/cost-volume-modified", "refinement changed the cost volume dataset")
    if "interpolated_coeff" not in ds:
        ctx.violation("C06/no-interpolated-coeff", "interpolated_coeff missing")
        return
    n_ref, n_stop, n_deg = judge(ctx, "direct", p["method"], cv, disps, tm, p["subpix"], d, m,
                                 ds["disparity_map"].data, ds["validity_mask"].data, ds["interpolated_coeff"].data)
    classes = [p["method"], tm, f"subpix{p['subpix']}"]
    if p["bit3"]:
        classes.append("bit3-preset")
    ctx.case(p, nontrivial=bool(n_ref and n_stop and n_deg), classes=classes)


# ---------------------------------------------------------------------------------------------------------------
# (b) pipeline level
# ---------------------------------------------------------------------------------------------------------------
@st.composite
def pipeline_cases(draw):
    pair = draw(gen.image_pair(min_rows=7, max_rows=12, min_cols=8, max_cols=14, max_val=6, masks=True))
    measure = draw(st.sampled_from(["sad", "ssd", "census", "zncc"]))
    win = draw(st.sampled_from([1, 3, 3, 5] if measure != "census" else [3, 5]))
    subpix = draw(st.sampled_from([1, 1, 2, 4]))
    pipe = {"matching_cost": {"matching_cost_method": measure, "window_size": win, "subpix": subpix}}
    if draw(st.integers(0, 3)) == 0:
        pipe["aggregation"] = {"aggregation_method": "cbca", "cbca_distance": draw(st.integers(2, 4)),
                               "cbca_intensity": draw(st.sampled_from([2.0, 30.0]))}
    pipe["disparity"] = {"disparity_method": "wta", "invalid_disparity": draw(st.sampled_from([-9999, "NaN"]))}

    def filt(name):
        kind = draw(st.sampled_from(["none", "median", "bilateral"]))
        if kind == "median":
            pipe[name] = {"filter_method": "median", "filter_size": 3}
        elif kind == "bilateral":
            pipe[name] = {"filter_method": "bilateral", "sigma_space": draw(st.sampled_from([0.7, 1.0])),
                          "sigma_color": draw(st.sampled_from([0.5, 2.0]))}

    val_at = draw(st.sampled_from([None, None, "first", "second"]))
    val_cfg = {"validation_method": "cross_checking_accurate", "cross_checking_threshold": draw(st.sampled_from([0, 1.0]))}
    filt("filter")
    if val_at == "first":
        # a refinement placed AFTER the cross-check: the pixels it flagged (bits 8 / 9) are invalid and must stay untouched
        pipe["validation"] = val_cfg
    pipe["refinement"] = {"refinement_method": draw(st.sampled_from(["vfit", "quadratic"]))}
    if draw(st.booleans()) or val_at == "second":
        filt("filter.2")
        if val_at == "second":
            pipe["validation"] = val_cfg
        pipe["refinement.2"] = {"refinement_method": draw(st.sampled_from(["vfit", "quadratic"]))}
    dmin = draw(st.integers(-4, 1))
    dmax = dmin + draw(st.integers(1, 4))
    steps = [[k, v] for k, v in pipe.items()]
    return {"pair": pair, "pipeline": steps, "disp": gen.clamp_interval([dmin, dmax], pair["W"], steps)}


def pipeline_body(ctx: Ctx, p: dict) -> None:
    left, right, ml, mr = gen.materialise_pair(p["pair"])
    pipe = gen.pipe_dict(p["pipeline"])
    captured = []

    def sides(machine):
        out = [("left", machine.left_cv, machine.left_disparity)]
        if machine.right_disparity is not None and "disparity_map" in machine.right_disparity and machine.right_cv is not None:
            out.append(("right", machine.right_cv, machine.right_disparity))  # with a validation step the right map is refined too
        return out

    def before(machine, step, kind):
        if kind == "refinement":
            for side, cv, dsp in sides(machine):
                captured.append({
                    "step": step, "side": side,
                    "cv": cv["cost_volume"].data.copy(),
                    "axis": cv.coords["disp"].data.copy(),
                    "type": cv.attrs["type_measure"],
                    "subpix": cv.attrs["subpixel"],
                    "d": dsp["disparity_map"].data.copy(),
                    "m": dsp["validity_mask"].data.copy(),
                })

    def after(machine, step, kind):
        if kind == "refinement":
            for side, cv, dsp in sides(machine):
                cap = next(c for c in reversed(captured) if c["step"] == step and c["side"] == side)
                cap["d_a"] = dsp["disparity_map"].data.copy()
                cap["m_a"] = dsp["validity_mask"].data.copy()
                cap["coeff"] = dsp["interpolated_coeff"].data.copy()

    drive.run_pipeline(left, right, pipe, tuple(p["disp"]), msk_left=ml, msk_right=mr,
                       valid=p["pair"]["valid"], nodata=p["pair"]["nodata"], spy=drive.Spy(after=after, before=before))
    tot = [0, 0, 0]
    for cap in captured:
        method = pipe[cap["step"]]["refinement_method"]
        res = judge(ctx, f"{cap['side']} {cap['step']}", method, cap["cv"], cap["axis"], cap["type"], cap["subpix"], cap["d"], cap["m"],
                    cap["d_a"], cap["m_a"], cap["coeff"])
        tot = [a + b for a, b in zip(tot, res)]
    classes = [f"refinements={len([c for c in captured if c['side'] == 'left'])}"]
    if "validation" in pipe:
        classes.append("refinement-after-validation")
    if any(c["side"] == "right" for c in captured):
        classes.append("right-map")
    if any(k.startswith("filter") for k in pipe):
        classes.append("after-filter")
    if "aggregation" in pipe:
        classes.append("cbca")
    ctx.case(p, nontrivial=bool(tot[0] and tot[1] and tot[2]), classes=classes)


CHECKS = [
    Check("direct", direct_body, strategy=direct_cases, budget={"quick": (8, 150), "thorough": (16, 3000)}),
    Check("pipeline", pipeline_body, strategy=pipeline_cases, budget={"quick": (8, 25), "thorough": (16, 600)}),
]
