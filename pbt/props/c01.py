"""C01 — accepted pipelines are exactly the documented automaton and run as written; the machine resets.

(exhaustive) every sequence of step kinds up to a length bound, in two suffix styles, is submitted to
`PandoraMachine.check_conf` with valid default parameters and compared with the three-state DFA;
(pipelines) Hypothesis-generated legal pipelines (random parameters, suffixes, stub plugins, multiscale) are
checked and run on small images along a generated history of check/run calls on one machine object; the recorded
execution trace is compared with the model trace; single-edit mutants that leave the DFA must be rejected."""
from __future__ import annotations

import copy
import itertools

import numpy as np
from hypothesis import strategies as st

from .. import build, drive, gen, stubs
from ..core import Check, Ctx
from ..ref import automaton as dfa

ID = "C01"
RULE = (
    "exhaustive: all sequences over the ten step kinds of length 1..4 (quick) / 1..5 (thorough), each in three naming "
    "styles (repeated kinds suffixed from the 2nd occurrence; every step suffixed; every step suffixed with text that spells "
    "another step kind), default valid parameters, stub "
    "plugins for optimization / semantic_segmentation; non-trivial = >= 3 steps and accepted by the DFA or one edit "
    "away from an accepted sequence. pipelines: generated legal pipelines with random parameters / suffixes / stubs / "
    "1-3 scales and a generated history of 2-5 check/run calls on one machine, plus one single-edit mutant each; "
    "non-trivial = >= 3 steps and >= 2 successful operations on the same machine. distinct = distinct payload."
)
ASSUMPTIONS = [
    "the empty pipeline is not judged (the statement does not say whether the empty word is a pipeline)",
    "a machine whose check was rejected is discarded (the property constrains the state after success only)",
    "optimization / semantic_segmentation are exercised through identity stub plugins registered by the harness",
]


def fixed_inputs():
    rng = np.random.RandomState(7)
    left = rng.randint(0, 9, (12, 14)).astype(np.float32)
    right = np.roll(left, 1, axis=1)
    return drive.make_inputs(left, right, (-2, 2))


def name_style(kinds, style):
    names, seen = [], {}
    for i, k in enumerate(kinds):
        if style == 0:
            n = seen.get(k, 0)
            names.append(k if n == 0 else f"{k}.{n}")
            seen[k] = n + 1
        elif style == 1:
            names.append(f"{k}.s{i}")
        else:
            # free text that happens to spell another step kind: the part before the dot alone decides the kind
            other = dfa.KINDS[(dfa.KINDS.index(k) + 1 + i) % len(dfa.KINDS)]
            names.append(f"{k}.{other}_{i}")
    return names


def near_legal(kinds) -> bool:
    ks = list(kinds)
    for i in range(len(ks)):
        if dfa.accepts(ks[:i] + ks[i + 1:]):
            return True
        for k in dfa.KINDS:
            if k != ks[i] and dfa.accepts(ks[:i] + [k] + ks[i + 1:]):
                return True
    for i in range(len(ks) + 1):
        for k in dfa.KINDS:
            if dfa.accepts(ks[:i] + [k] + ks[i:]):
                return True
    return False


def enumerate_sequences(tier, shard, nshards):
    maxlen = 4 if tier == "quick" else 5
    n = 0
    for length in range(1, maxlen + 1):
        for kinds in itertools.product(dfa.KINDS, repeat=length):
            for style in (0, 1, 2):
                if n % nshards == shard:
                    yield {"kinds": list(kinds), "style": style}
                n += 1


def machine_clean(machine):
    return machine.state == "begin" and not machine.events and not machine.get_transitions()


def exhaustive_body(ctx: Ctx, p: dict) -> None:
    from pandora.state_machine import PandoraMachine
    from transitions import MachineError

    stubs.install()
    kinds = p["kinds"]
    names = name_style(kinds, p["style"])
    expected = dfa.accepts(kinds)
    l, r = fixed_inputs()
    ml, mr = build.metadata_dataset(l), build.metadata_dataset(r)
    pipe = {n: copy.deepcopy(dfa.DEFAULT_CFG[k]) for n, k in zip(names, kinds)}
    user = copy.deepcopy(pipe)
    machine = PandoraMachine()
    tag = f"names={names}"
    try:
        machine.check_conf({"pipeline": pipe}, ml, mr)
        accepted, err = True, None
    except MachineError as exc:
        accepted, err = False, exc
    except Exception as exc:  # noqa: BLE001
        accepted, err = False, exc
    if accepted and not expected:
        ctx.violation("C01/illegal-sequence-accepted", tag)
    if not accepted and expected:
        suff = [n for n, k in zip(names, kinds) if "." in n and k in ("matching_cost", "optimization", "semantic_segmentation")]
        sig = "C01/legal-suffixed-step-rejected" if suff else "C01/legal-sequence-rejected"
        ctx.violation(sig, f"{tag}: {type(err).__name__}: {str(err)[:100]}")
    if not accepted and not expected and not isinstance(err, MachineError):
        ctx.violation("C01/illegal-sequence-not-a-sequencing-error", f"{tag}: {type(err).__name__}: {str(err)[:100]}")
    if accepted and expected:
        if not machine_clean(machine):
            ctx.violation("C01/machine-not-reset-after-check", f"{tag}: state={machine.state} events={list(machine.events)[:3]}")
        if list(machine.pipeline_cfg["pipeline"]) != names:
            ctx.violation("C01/checked-pipeline-reordered-or-truncated", f"{tag}: {list(machine.pipeline_cfg['pipeline'])}")
        first_cfg = copy.deepcopy(machine.pipeline_cfg)
        first_margins = machine.margins.to_dict()
        try:
            machine.check_conf({"pipeline": copy.deepcopy(user)}, ml, mr)
        except Exception as exc:  # noqa: BLE001
            ctx.violation("C01/second-check-on-same-machine-fails", f"{tag}: {type(exc).__name__}: {str(exc)[:100]}")
        else:
            if not build._eq(first_cfg, machine.pipeline_cfg) or first_margins != machine.margins.to_dict():
                ctx.violation("C01/second-check-differs", tag)
            if not machine_clean(machine):
                ctx.violation("C01/machine-not-reset-after-check", f"{tag} (second check)")
    ctx.judged += 1
    ctx.case(p, nontrivial=bool(len(kinds) >= 3 and (expected or near_legal(kinds))),
             classes=["accepted" if expected else "rejected", f"len{len(kinds)}", f"style{p['style']}"])


# ---------------------------------------------------------------------------------------------------------------
@st.composite
def pipeline_cases(draw):
    pair = draw(gen.image_pair(min_rows=10, max_rows=28, min_cols=12, max_cols=30, max_val=9, masks=True, conventions=False,
                               tile_max=10))
    steps = draw(gen.legal_pipeline(validation="maybe", repeat_validation=True, windows=(1, 3, 3)))
    # stub plugin steps in the cost-volume phase
    idx_disp = [n for n, _ in steps].index("disparity")
    for kind, cfg in (("optimization", {"optimization_method": "verif_identity"}),
                      ("semantic_segmentation", {"segmentation_method": "verif_identity", "RGB_bands": {}})):
        if draw(st.integers(0, 3)) == 0:
            steps.insert(draw(st.integers(1, idx_disp)), [kind, cfg])
            idx_disp += 1
    ns = draw(st.sampled_from([1, 1, 2, 2, 3]))
    # every level must stay larger than the matching window (and the 3x3 median of cbca): shrink ns otherwise
    win = max(steps[0][1].get("window_size", 5), 3)
    while ns > 1 and min(pair["H"], pair["W"]) // 2 ** (ns - 1) < win + 2:
        ns -= 1
    if ns > 1:
        post_start = idx_disp + 1
        pos = draw(st.integers(post_start, len(steps)))
        ms = {"multiscale_method": "fixed_zoom_pyramid", "scale_factor": 2}
        if ns != 2 or draw(st.booleans()):
            ms["num_scales"] = ns
        steps.insert(pos, ["multiscale", ms])
    # any step may carry a suffix, also when it occurs once
    for _ in range(draw(st.sampled_from([0, 0, 1, 1, 2]))):
        i = draw(st.integers(0, len(steps) - 1))
        if "." not in steps[i][0]:
            # free text, also text that spells another step kind (only the part before the dot names the kind)
            steps[i][0] = steps[i][0] + draw(st.sampled_from([".only", ".validation", ".before_validation", ".multiscale",
                                                              ".no_filter", ".matching_cost_2",
                                                              # several dots: the user guide's own example is "filter.after.validation"
                                                              ".after.validation", ".v1.2", ".a.b.c"]))
    ops = ["check"] + draw(st.lists(st.sampled_from(["check", "run", "run", "check_perm", "check_sub", "check_other"]), min_size=1, max_size=4))
    perm_seed = draw(st.integers(0, 1000))
    edit = draw(st.sampled_from(["swap", "delete", "duplicate", "insert"]))
    return {"pair": pair, "pipeline": steps, "disp": [draw(st.integers(-3, 0)), draw(st.integers(0, 3))], "ops": ops,
            "ns": ns, "perm_seed": perm_seed, "edit": [edit, draw(st.integers(0, 50)), draw(st.sampled_from(dfa.KINDS))]}


def model_trace(names, ns):
    out = []
    for s in range(ns - 1, -1, -1):
        for n in names:
            k = dfa.kind_of(n)
            if k == "multiscale":
                if s != 0:
                    out.append((k, n, s))
                    break
                continue
            out.append((k, n, s))
    return out


METHOD_OF = {"matching_cost": "compute_cost_volume", "aggregation": "cost_volume_aggregation", "optimization": "optimize_cv",
             "semantic_segmentation": "compute_semantic_segmentation", "cost_volume_confidence": "confidence_prediction",
             "disparity": "to_disp", "filter": "filter_disparity", "refinement": "subpixel_refinement",
             "multiscale": "disparity_range"}


def model_calls(steps, ns, has_val):
    """(step, scale, method, side) for every application the documented run performs"""
    out = []
    sides = ["L", "R"] if has_val else ["L"]
    for k, n, s in model_trace([n for n, _ in steps], ns):
        cfg = dict(steps)[n] if False else next(c for nn, c in steps if nn == n)
        if k == "validation":
            out += [(n, s, "disparity_checking", "L"), (n, s, "disparity_checking", "R")]
            if "interpolated_disparity" in cfg:
                out += [(n, s, "interpolated_disparity", "L"), (n, s, "interpolated_disparity", "R")]
        else:
            out += [(n, s, METHOD_OF[k], side) for side in sides]
    return out


def other_cfg(kind: str, cfg: dict) -> dict:
    """another valid configuration of the same step kind (different value for every parameter that has one)"""
    c = copy.deepcopy(cfg)
    if kind == "matching_cost":
        c["matching_cost_method"] = "ssd" if cfg.get("matching_cost_method") != "ssd" else "sad"
        c["window_size"] = 1 if cfg.get("window_size", 5) != 1 else 3
    elif kind == "aggregation":
        c["cbca_distance"] = 2 if cfg.get("cbca_distance", 5) != 2 else 3
        c["cbca_intensity"] = 4.0 if cfg.get("cbca_intensity", 30.0) != 4.0 else 9.0
    elif kind == "cost_volume_confidence":
        if cfg.get("confidence_method") in ("ambiguity", "risk"):
            c["eta_max"] = 0.5 if cfg.get("eta_max", 0.7) != 0.5 else 0.3
            c["eta_step"] = 0.1 if cfg.get("eta_step", 0.01) != 0.1 else 0.05
        elif cfg.get("confidence_method") == "interval_bounds":
            c["possibility_threshold"] = 0.5 if cfg.get("possibility_threshold", 0.9) != 0.5 else 0.8
    elif kind == "disparity":
        c["invalid_disparity"] = "NaN" if cfg.get("invalid_disparity", -9999) != "NaN" else -9999
    elif kind == "refinement":
        c["refinement_method"] = "quadratic" if cfg.get("refinement_method") != "quadratic" else "vfit"
    elif kind == "filter":
        if cfg.get("filter_method") == "median":
            c["filter_size"] = 5 if cfg.get("filter_size", 3) != 5 else 3
        elif cfg.get("filter_method") == "bilateral":
            c["sigma_space"] = 0.9 if cfg.get("sigma_space", 6.0) != 0.9 else 0.7
            c["sigma_color"] = 0.5 if cfg.get("sigma_color", 2.0) != 0.5 else 1.5
    elif kind == "validation":
        c["cross_checking_threshold"] = 0.5 if cfg.get("cross_checking_threshold", 1.0) != 0.5 else 2.0
        if "interpolated_disparity" in cfg:
            c["interpolated_disparity"] = "sgm" if cfg["interpolated_disparity"] != "sgm" else "mc-cnn"
    elif kind == "multiscale":
        c["marge"] = 3 if cfg.get("marge", 1) != 3 else 0
    return c


def products_equal(a, b) -> bool:
    return not build.snapshot_diff(build.snapshot(a), build.snapshot(b))


def pipeline_body(ctx: Ctx, p: dict) -> None:
    from pandora.state_machine import PandoraMachine
    from transitions import MachineError

    stubs.install()
    kw = gen.pair_kwargs(p["pair"])
    l, r = drive.make_inputs(kw["left"], kw["right"], tuple(p["disp"]), kw["msk_left"], kw["msk_right"])
    steps = p["pipeline"]
    names = [n for n, _ in steps]
    kinds = [dfa.kind_of(n) for n in names]
    ns = p["ns"]
    tag = f"names={names} ns={ns}"
    if not dfa.accepts(kinds):
        raise AssertionError("generator produced an illegal pipeline")
    has_val = "validation" in kinds
    machine = PandoraMachine()
    first_checked = first_margins = first_trace = first_left = first_right = None
    n_ok = 0
    checked = None
    sub_used = mirrored = compare_fresh = False
    for op in p["ops"]:
        if op in ("check_perm", "check_sub", "check_other"):
            i_d = kinds.index("disparity")
            rot = 1 + p.get("perm_seed", 0) % 3
            if op == "check_perm":
                # the same steps in another legal order (each phase permuted within itself), on the machine that has history
                cvp, post = steps[1:i_d], steps[i_d + 1:]
                cvp = cvp[rot % len(cvp):] + cvp[:rot % len(cvp)] if cvp else cvp
                post = post[rot % len(post):] + post[:rot % len(post)] if post else post
                steps = [steps[0]] + cvp + [steps[i_d]] + post
                what = "re-ordered on a used machine"
            elif op == "check_other":
                # the same step kinds with OTHER parameters in every step, on the machine that has history: nothing built
                # for the previous pipeline (plugin objects, margins, flags) may survive
                steps = [[n_, other_cfg(dfa.kind_of(n_), c_)] for n_, c_ in steps]
                what = "other parameters in every step on a used machine"
                sub_used = True
            else:
                # a shorter pipeline on the machine that has history: one or two optional steps dropped
                drop = [i for i, k in enumerate(kinds) if k in ("aggregation", "filter", "refinement", "validation")]
                drop = [drop[(p.get("perm_seed", 0) + j * 7) % len(drop)] for j in range(min(len(drop), 1 + rot % 2))] if drop else []
                steps = [st_ for i, st_ in enumerate(steps) if i not in drop]
                what = f"{len(set(drop))} step(s) dropped on a used machine"
                if drop:
                    sub_used = True
            names = [n for n, _ in steps]
            kinds = [dfa.kind_of(n) for n in names]
            has_val = "validation" in kinds
            tag = f"names={names} ns={ns} ({what})"
            compare_fresh = True
            fresh = drive.check_pipeline(PandoraMachine(), gen.pipe_dict(steps), l, r)
            first_checked = first_margins = first_trace = first_left = first_right = None
            op = "check"
            try:
                checked = drive.check_pipeline(machine, gen.pipe_dict(steps), l, r)
            except Exception as exc:  # noqa: BLE001
                ctx.violation("C01/legal-pipeline-rejected", f"{tag}: {type(exc).__name__}: {str(exc)[:120]}")
                break
            if list(checked["pipeline"]) != names:
                ctx.violation("C01/checked-pipeline-reordered-or-truncated", f"{tag}: {list(checked['pipeline'])}")
            if not build._eq(fresh, checked):
                ctx.violation("C01/check-depends-on-machine-history", tag)
            first_checked, first_margins = copy.deepcopy(checked), machine.margins.to_dict()
            if not machine_clean(machine):
                ctx.violation("C01/machine-not-reset-after-check", f"{tag}: state={machine.state}")
            n_ok += 1
            continue
        if op == "check":
            try:
                checked = drive.check_pipeline(machine, gen.pipe_dict(steps), l, r)
            except Exception as exc:  # noqa: BLE001
                ctx.violation("C01/legal-pipeline-rejected", f"{tag}: {type(exc).__name__}: {str(exc)[:120]}")
                break
            if list(checked["pipeline"]) != names:
                ctx.violation("C01/checked-pipeline-reordered-or-truncated", f"{tag}: {list(checked['pipeline'])}")
            if first_checked is None:
                first_checked, first_margins = copy.deepcopy(checked), machine.margins.to_dict()
            elif not build._eq(first_checked, checked) or first_margins != machine.margins.to_dict():
                ctx.violation("C01/second-check-differs", tag)
        else:
            stubs.CALLS.clear()
            spy = drive.DeepSpy()
            try:
                with spy:
                    # the caller keeps the checked configuration and hands the SAME object to every run
                    lo, ro = drive.run_checked(machine, l, r, checked)
            except (MachineError, KeyError, AttributeError) as exc:
                ctx.violation("C01/accepted-pipeline-fails-at-run", f"{tag}: {type(exc).__name__}: {str(exc)[:120]}")
                break
            trace = [(k, n, s) for k, n, s, _ in spy.events]
            exp = model_trace(names, ns)
            if trace != exp:
                extra = [t for t in trace if t not in exp]
                missing = [t for t in exp if t not in trace]
                sig = "C01/step-not-executed" if missing and not extra else (
                    "C01/step-executed-too-often" if extra and not missing else "C01/run-trace-differs")
                ctx.violation(sig, f"{tag}: missing={missing[:4]} extra={extra[:4]} trace={trace}")
            exp_calls_deep = model_calls(steps, ns, has_val)
            if spy.calls != exp_calls_deep:
                extra = [c for c in spy.calls if c not in exp_calls_deep]
                missing = [c for c in exp_calls_deep if c not in spy.calls]
                sig = "C01/step-not-applied-on-one-side" if missing and not extra else "C01/step-application-differs"
                ctx.violation(sig, f"{tag}: missing={missing[:4]} extra={extra[:4]}")
            if ("disparity" in kinds) != ("disparity_map" in lo):
                ctx.violation("C01/left-products-presence", tag)
            if (has_val and "disparity" in kinds) != ("disparity_map" in ro):
                ctx.violation("C01/right-products-presence", f"{tag}: validation={has_val} right vars={sorted(ro.data_vars)}")
            if not has_val and len(ro.data_vars):
                # no validation: no step takes effect on the right side, whatever steps (confidence, ...) the pipeline has
                ctx.violation("C01/right-products-presence", f"{tag}: no validation step, yet the right product holds {sorted(ro.data_vars)}")
            n_stub = sum(1 for k in kinds if k in ("optimization", "semantic_segmentation"))
            exp_calls = n_stub * ns * (2 if has_val else 1)
            if len(stubs.CALLS) != exp_calls:
                ctx.violation("C01/plugin-step-call-count", f"{tag}: {len(stubs.CALLS)} calls, expected {exp_calls}")
            if compare_fresh:
                # the machine has a history with another pipeline: its products are those of a machine without history
                compare_fresh = False
                n_calls = len(stubs.CALLS)
                ref_run = drive.run_pipeline(kw["left"], kw["right"], gen.pipe_dict(steps), tuple(p["disp"]),
                                             msk_left=kw["msk_left"], msk_right=kw["msk_right"])
                del stubs.CALLS[n_calls:]
                if not products_equal(ref_run.left, lo) or not products_equal(ref_run.right, ro):
                    ctx.violation("C01/run-depends-on-machine-history", f"{tag}: products differ from those of a fresh machine")
            if first_trace is None:
                first_trace, first_left, first_right = trace, lo.copy(deep=True), ro.copy(deep=True)
                if has_val and "disparity_map" in ro:
                    # "symmetrically on the right data": the right products are the left products of the exchanged pair
                    a_, b_ = p["disp"]
                    stubs.CALLS.clear()
                    mir = drive.run_pipeline(kw["right"], kw["left"], gen.pipe_dict(steps), (-b_, -a_),
                                             msk_left=kw["msk_right"], msk_right=kw["msk_left"])
                    for v in ("disparity_map", "validity_mask", "confidence_measure"):
                        if v in ro and not np.array_equal(ro[v].data, mir.left[v].data, equal_nan=True):
                            ctx.violation("C01/right-data-not-symmetric", f"{tag}: right {v} differs from the left {v} of the "
                                                                          f"exchanged pair at {int((~np.isclose(ro[v].data, mir.left[v].data, equal_nan=True)).sum())} elements")
                    mirrored = True
            else:
                if trace != first_trace:
                    ctx.violation("C01/second-run-trace-differs", tag)
                if not products_equal(first_left, lo) or not products_equal(first_right, ro):
                    ctx.violation("C01/second-run-products-differ", tag)
        if not machine_clean(machine):
            ctx.violation(f"C01/machine-not-reset-after-{op}", f"{tag}: state={machine.state} events={list(machine.events)[:3]}")
        n_ok += 1
    # ---- one single-edit mutant: if it leaves the DFA it must be rejected with a sequencing error
    kind_e, pos, newk = p["edit"]
    ms = [list(s) for s in steps]
    i = pos % len(ms)
    if kind_e == "swap" and len(ms) > 1:
        j = (i + 1) % len(ms)
        ms[i], ms[j] = ms[j], ms[i]
    elif kind_e == "delete":
        del ms[i]
    elif kind_e == "duplicate":
        ms.insert(i, [ms[i][0] + ".dup", copy.deepcopy(ms[i][1])])
    else:
        ms.insert(i, [newk + ".ins", copy.deepcopy(dfa.DEFAULT_CFG[newk])])
    mk = [dfa.kind_of(n) for n, _ in ms]
    mutant_illegal = bool(ms) and not dfa.accepts(mk)
    if mutant_illegal:
        m2 = PandoraMachine()
        spy = drive.Spy()
        try:
            with spy:
                drive.check_pipeline(m2, gen.pipe_dict(ms), l, r)
            ctx.violation("C01/illegal-sequence-accepted", f"names={[n for n, _ in ms]}")
        except MachineError:
            pass
        except Exception as exc:  # noqa: BLE001
            ctx.violation("C01/illegal-sequence-not-a-sequencing-error", f"names={[n for n, _ in ms]}: {type(exc).__name__}: "
                                                                          f"{str(exc)[:100]}")
        if spy.events:
            ctx.violation("C01/rejected-pipeline-partly-applied", f"{spy.events[:3]}")
    classes = [f"ns{ns}"]
    if has_val:
        classes.append("validation")
    if any("." in n for n in names):
        classes.append("suffix")
    if any(n.count(".") >= 2 for n in names):
        classes.append("suffix-with-several-dots")
    if mutant_illegal:
        classes.append("illegal-mutant")
    if p["ops"].count("run") >= 2:
        classes.append("run-twice")
    if "check_perm" in p["ops"]:
        classes.append("re-ordered-on-used-machine")
    if sub_used:
        classes.append("shorter-pipeline-on-used-machine")
    if mirrored:
        classes.append("right-vs-exchanged-pair" + ("-multiscale" if ns > 1 else ""))
    ctx.case(p, nontrivial=bool(len(names) >= 3 and n_ok >= 2), classes=classes)



# ---------------------------------------------------------------------------------------------------------------
# band selection: whatever band names the two images carry, a pipeline the check accepts runs; one whose band both
# images carry is accepted
# ---------------------------------------------------------------------------------------------------------------
BAND_SETS = [None, ["r", "g", "b"], ["g", "b", "n"], ["b", "r"]]


def enumerate_bands(tier, shard, nshards):
    n = 0
    for lb in BAND_SETS:
        for rb in BAND_SETS:
            for band in (None, "r", "g", "n"):
                for val in (False, True):
                    for meas in (("sad", "census") if tier == "quick" else ("sad", "ssd", "census", "zncc")):
                        if n % nshards == shard:
                            yield {"left_bands": lb, "right_bands": rb, "band": band, "validation": val, "measure": meas}
                        n += 1


def bands_body(ctx: Ctx, p: dict) -> None:
    from pandora.state_machine import PandoraMachine

    rng = np.random.RandomState(3)
    base = rng.randint(0, 20, (3, 9, 12)).astype(np.float32)

    def img(bands, shift):
        a = np.roll(base, shift, axis=2)
        return a[0] if bands is None else a[:len(bands)]

    lb, rb, band = p["left_bands"], p["right_bands"], p["band"]
    l, r = drive.make_inputs(img(lb, 0), img(rb, 1), (-2, 1), bands=lb, right_bands=rb)
    mc = {"matching_cost_method": p["measure"], "window_size": 3}
    if band is not None:
        mc["band"] = band
    pipe = {"matching_cost": mc, "disparity": {"disparity_method": "wta"}}
    if p["validation"]:
        pipe["validation"] = {"validation_method": "cross_checking_accurate"}
    legal = (band is None and lb is None and rb is None) or (band is not None and lb is not None and rb is not None
                                                               and band in lb and band in rb)
    tag = f"left bands={lb} right bands={rb} band={band} validation={p['validation']} measure={p['measure']}"
    machine = PandoraMachine()
    try:
        checked = drive.check_pipeline(machine, copy.deepcopy(pipe), l, r)
        accepted = True
    except Exception as exc:  # noqa: BLE001
        accepted = False
        if legal:
            ctx.violation("C01/legal-sequence-rejected", f"{tag}: {type(exc).__name__}: {str(exc)[:100]}")
    if accepted:
        try:
            drive.run_checked(machine, l, r, checked)
        except Exception as exc:  # noqa: BLE001
            ctx.violation("C01/accepted-pipeline-fails-at-run", f"{tag}: {type(exc).__name__}: {str(exc)[:120]}")
    ctx.judged += 1
    ctx.case(p, nontrivial=bool(lb != rb and band is not None),
             classes=["accepted" if accepted else "rejected"] + (["images-with-different-band-names"] if lb != rb else []))


CHECKS = [
    Check("exhaustive", exhaustive_body, enumerate=enumerate_sequences, exhaustive=True,
          budget={"quick": (12, 0), "thorough": (16, 0)}),
    Check("bands", bands_body, enumerate=enumerate_bands, exhaustive=True, budget={"quick": (8, 0), "thorough": (8, 0)}),
    Check("pipelines", pipeline_body, strategy=pipeline_cases, budget={"quick": (10, 25), "thorough": (16, 600)}),
]
