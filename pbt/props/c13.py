"""C13 — results are local: a pixel depends on its neighbourhood, not on its position.

Metamorphic, exact: (crop) processing any crop that contains a pixel's dependency cone gives bit-identical
disparity and flags for that pixel as processing the whole image, wherever the crop starts (absolute ROI-style
coordinates); (flip) flipping both images vertically flips the outputs."""
from __future__ import annotations

import numpy as np
from hypothesis import strategies as st

from .. import drive, gen
from ..core import Check, Ctx

ID = "C13"
RULE = (
    "Hypothesis-generated pairs 30-60 x 70-130 (tile-constructed or seeded textures, integer radiometry up to 3 / 20 / 255 "
    "/ 4095 - up to 19 with cbca -, sparse masks), local "
    "pipelines (sad/ssd/census/zncc, subpix 1/2/4, optional cbca, wta, vfit/quadratic, median/bilateral with small "
    "odd windows, cross-checking without filling, steps in any legal order), scalar intervals within [-4,4], crop "
    "rectangles with arbitrary (odd and even) offsets; one case in three is 106-130 px wide with a noisy disparity map "
    "(a seeded fraction of right pixels replaced), a median filter and a crop whose interior holds the columns where "
    "the whole image changes 100-pixel processing block; half of the two-plane scenes get a crop inside ONE plane (with a "
    "few outliers and a validation step), so that the crop does not hold every disparity of the whole image. Non-trivial (crop) = >= 50 cone-interior pixels compared, >= 1 "
    "of them flagged and >= 1 with a fractional disparity; (flip) = >= 1 flagged and >= 1 valid pixel and the image is "
    "not vertically symmetric. distinct = distinct canonical payload."
)
ASSUMPTIONS = [
    "the compared pixels are those whose conservative cone lies inside both the crop and the image: rows within "
    "(#validation+1) x (sum of all window/arm/filter radii) + 1, columns within (#validation+1) x (radii + max|d| + 1) + radii",
    "zncc combined with cbca is not generated: float32 prefix sums of non-integer costs are not associative, so "
    "bit-identity across crops/flips is not a sound expectation there (integer costs are exact)",
    "the flip relation is not asserted for bilateral filtering (summation order changes; only crop is)",
]

INVB = 0b1111000011


@st.composite
def local_pipeline(draw, allow_bilateral=True):
    measure = draw(st.sampled_from(["sad", "ssd", "census", "zncc"]))
    with_cbca = measure != "zncc" and draw(st.integers(0, 2)) == 0
    steps = [["matching_cost", draw(gen.matching_cost_cfg(measures=(measure,), windows=(1, 3, 3, 5)))]]
    if with_cbca:
        steps.append(["aggregation", {"aggregation_method": "cbca", "cbca_distance": draw(st.sampled_from([1, 2, 3])),
                                      "cbca_intensity": draw(st.sampled_from([2.0, 30.0]))}])
    steps.append(["disparity", {"disparity_method": "wta", "invalid_disparity": draw(st.sampled_from([-9999, "NaN"]))}])
    n = draw(st.integers(0, 3))
    cnt = {"filter": 0, "refinement": 0, "validation": 0}
    for _ in range(n):
        k = draw(st.sampled_from(["filter", "refinement", "validation"]))
        if k == "validation" and cnt[k]:
            k = "filter"
        name = k if cnt[k] == 0 else f"{k}.{cnt[k]}"
        cnt[k] += 1
        if k == "filter":
            kinds = ("median", "bilateral") if allow_bilateral else ("median",)
            if draw(st.sampled_from(kinds)) == "median":
                steps.append([name, {"filter_method": "median", "filter_size": draw(st.sampled_from([3, 3, 5]))}])
            else:
                steps.append([name, {"filter_method": "bilateral", "sigma_space": draw(st.sampled_from([0.7, 0.9, 1.5])),
                                     "sigma_color": draw(st.sampled_from([0.5, 2.0]))}])
        elif k == "refinement":
            steps.append([name, {"refinement_method": draw(st.sampled_from(["vfit", "quadratic"]))}])
        else:
            steps.append([name, {"validation_method": "cross_checking_accurate",
                                 "cross_checking_threshold": draw(st.sampled_from([0, 0.5, 1.0, 1.0]))}])
    return steps


def radii(steps, disp):
    R = gen.pipeline_radius(steps)
    nval = sum(1 for n, _ in steps if n.split(".")[0] == "validation")
    maxd = max(abs(disp[0]), abs(disp[1]))
    rr = (nval + 1) * R + 1
    cr = (nval + 1) * (R + maxd + 1) + R
    return rr, cr


@st.composite
def crop_cases(draw):
    steps = draw(local_pipeline())
    # deep radiometry (8 / 12 bit) except with cbca, whose float32 prefix sums of large costs are not associative across crops
    mv = 19 if any(n.split(".")[0] == "aggregation" for n, _ in steps) else 20
    pair = draw(gen.image_pair(min_rows=30, max_rows=60, min_cols=70, max_cols=130, max_val=mv, masks=True, tile_max=9,
                               texture=True))
    a = draw(st.integers(-4, 3))
    disp = [a, min(4, a + draw(st.integers(0, 4)))]
    straddle = draw(st.integers(0, 2)) == 0
    if straddle:
        # the internal 100-pixel processing blocks: a wide image with a noisy disparity map, a median filter, and a crop
        # whose interior contains the columns where the whole image changes block
        pair = draw(gen.image_pair(min_rows=30, max_rows=44, min_cols=106, max_cols=130, max_val=mv, masks=True, tile_max=9,
                                   texture=True))
        pair["noise"] = {"seed": draw(st.integers(0, 10 ** 6)), "frac": draw(st.sampled_from([0.15, 0.3, 0.5]))}
        if not any(c.get("filter_method") == "median" for _, c in steps):
            i_d = [n for n, _ in steps].index("disparity")
            steps.insert(draw(st.integers(i_d + 1, len(steps))), ["filter.blk", {"filter_method": "median", "filter_size": draw(st.sampled_from([3, 5]))}])
    # a two-plane scene: half of the crops lie inside ONE plane, so that the crop does not hold every disparity the whole
    # image holds (a step using a statistic of the processed map would see another one); a few outliers give right pixels
    # pointing back with a disparity the crop's own valid pixels do not reach
    one_plane = (not straddle) and pair.get("mode") == "planes" and draw(st.booleans())
    if one_plane:
        pair["noise"] = {"seed": draw(st.integers(0, 10 ** 6)), "frac": draw(st.sampled_from([0.02, 0.05, 0.1]))}
        disp = [max(-4, min(disp[0], pair["shift"], pair["shift2"], 0)), min(4, max(disp[1], pair["shift"], pair["shift2"]))]
        if not any(n.split(".")[0] == "validation" for n, _ in steps):
            steps.append(["validation", {"validation_method": "cross_checking_accurate"}])
    rr, cr = radii(steps, disp)
    H, W = pair["H"], pair["W"]
    hmin, wmin = min(H, 2 * rr + 4), min(W, 2 * cr + 6)
    h = draw(st.integers(hmin, H))
    sp = pair.get("split", 0)
    if straddle and W >= 100 + cr + 6 and 100 - cr - 3 >= 1:
        c0 = draw(st.integers(1, 100 - cr - 3))
        w = draw(st.integers(min(W - c0, 100 + cr + 6 - c0), W - c0))
    elif one_plane and sp >= wmin and (W - sp < wmin or draw(st.booleans())):
        w = draw(st.integers(wmin, sp))
        c0 = draw(st.integers(0, sp - w))
    elif one_plane and W - sp >= wmin:
        w = draw(st.integers(wmin, W - sp))
        c0 = draw(st.integers(sp, W - w))
    else:
        w = draw(st.integers(wmin, W))
        c0 = draw(st.integers(0, W - w))
    r0 = draw(st.integers(0, H - h))
    out = {"pair": pair, "pipeline": steps, "disp": disp, "crop": [r0, c0, h, w]}
    if not any(n.split(".")[0] == "aggregation" for n, _ in steps) and draw(st.integers(0, 4)) == 0:
        # a three-band pair with the band named in the matching-cost step (cbca is a mono-band step)
        out["mb"] = draw(st.lists(st.integers(0, 9), min_size=3, max_size=3))
        steps[0][1]["band"] = draw(st.sampled_from(["r", "g", "b"]))
    return out


def run(left, right, ml, mr, conv, steps, disp, row0=0, col0=0, bands=None):
    return drive.run_pipeline(left, right, gen.pipe_dict(steps), tuple(disp), msk_left=ml, msk_right=mr, row0=row0,
                              col0=col0, bands=bands, **conv)


def crop_body(ctx: Ctx, p: dict) -> None:
    left, right, ml, mr = gen.materialise_pair(p["pair"])
    conv = dict(valid=p["pair"]["valid"], nodata=p["pair"]["nodata"])
    steps, disp = p["pipeline"], p["disp"]
    r0, c0, h, w = p["crop"]
    H, W = left.shape
    sl = (slice(r0, r0 + h), slice(c0, c0 + w))
    bands = None
    if p.get("mb"):
        # three bands (scene x gain + offset), the matching cost works on the one the step names
        bands = ["r", "g", "b"]
        left = np.stack([left * (1 + k) + o for k, o in enumerate(p["mb"])]).astype(np.float32)
        right = np.stack([right * (1 + k) + o for k, o in enumerate(p["mb"])]).astype(np.float32)
    sl_im = sl if bands is None else (slice(None),) + sl
    full = run(left, right, ml, mr, conv, steps, disp, bands=bands)
    crop = run(left[sl_im], right[sl_im], None if ml is None else ml[sl], None if mr is None else mr[sl], conv, steps, disp,
               row0=r0, col0=c0, bands=bands)
    rr, cr = radii(steps, disp)
    # interior of the crop whose cone lies inside the crop (hence inside the image)
    i0, i1, j0, j1 = rr, h - rr, cr, w - cr
    n_cmp = n_flag = n_frac = 0
    for side in ("left", "right"):
        F, C = getattr(full, side), getattr(crop, side)
        if ("disparity_map" in F) != ("disparity_map" in C):
            ctx.violation("C13/products-presence-differs", side)
            continue
        if "disparity_map" not in F or i1 <= i0 or j1 <= j0:
            continue
        if list(C.coords["row"].data[[0, -1]]) != [r0, r0 + h - 1] or list(C.coords["col"].data[[0, -1]]) != [c0, c0 + w - 1]:
            ctx.violation("C13/crop-coordinates-lost", f"{side}: rows {C.coords['row'].data[[0, -1]]} cols {C.coords['col'].data[[0, -1]]}")
        fd = F["disparity_map"].data[r0 + i0:r0 + i1, c0 + j0:c0 + j1]
        cd = C["disparity_map"].data[i0:i1, j0:j1]
        fm = F["validity_mask"].data[r0 + i0:r0 + i1, c0 + j0:c0 + j1]
        cm = C["validity_mask"].data[i0:i1, j0:j1]
        dd = ~((fd == cd) | (np.isnan(fd) & np.isnan(cd)))
        dm = fm != cm
        if dd.any() or dm.any():
            r, c = np.argwhere(dd | dm)[0]
            sig = "C13/crop-changes-flags" if dm.any() and not dd.any() else "C13/crop-changes-disparity"
            ctx.violation(sig, f"{side} pixel (row {r0 + i0 + int(r)}, col {c0 + j0 + int(c)}): full d={fd[r, c]} m={int(fm[r, c])} "
                               f"crop d={cd[r, c]} m={int(cm[r, c])} crop={p['crop']} radii=({rr},{cr}) "
                               f"({int(dd.sum())} disp, {int(dm.sum())} flags differ) pipeline={steps} disp={disp}")
        n_cmp += fd.size
        n_flag += int(((fm & INVB) != 0).sum())
        n_frac += int((np.isfinite(fd) & (fd != np.round(fd))).sum())
    ctx.judged += n_cmp
    names = [n.split(".")[0] for n, _ in steps]
    classes = [steps[0][1]["matching_cost_method"]]
    for k in ("aggregation", "validation", "refinement"):
        if k in names:
            classes.append(k)
    if any(c.get("filter_method") == "bilateral" for _, c in steps):
        classes.append("bilateral")
    if c0 % 2:
        classes.append("odd-col-offset")
    hi_ = p["pair"]["left"]["hi"] if isinstance(p["pair"]["left"], dict) else int(np.max(p["pair"]["left"]))
    if hi_ > 255:
        classes.append("radiometry>8bit")
    if p.get("mb"):
        classes.append("multiband")
    if p["pair"].get("noise") and p["pair"]["noise"]["frac"] > 0.12:
        classes.append("crop-straddles-100px-block")
    elif p["pair"].get("noise"):
        classes.append("crop-inside-one-plane")
    ctx.case(p, nontrivial=bool(n_cmp >= 50 and n_flag and n_frac), classes=classes)


@st.composite
def flip_cases(draw):
    steps = draw(local_pipeline(allow_bilateral=False))
    # deep radiometry only where the costs stay exact in float32: squared differences of 12-bit values summed over a window
    # exceed 2**24, and their float32 sum depends on the summation order, which a vertical flip reverses
    mv = 19 if (any(n.split(".")[0] == "aggregation" for n, _ in steps) or steps[0][1]["matching_cost_method"] == "ssd") else 20
    pair = draw(gen.image_pair(min_rows=12, max_rows=40, min_cols=20, max_cols=60, max_val=mv, masks=True, tile_max=9,
                               texture=True))
    a = draw(st.integers(-4, 3))
    return {"pair": pair, "pipeline": steps, "disp": [a, min(4, a + draw(st.integers(0, 4)))]}


def flip_body(ctx: Ctx, p: dict) -> None:
    left, right, ml, mr = gen.materialise_pair(p["pair"])
    conv = dict(valid=p["pair"]["valid"], nodata=p["pair"]["nodata"])
    steps, disp = p["pipeline"], p["disp"]
    A = run(left, right, ml, mr, conv, steps, disp)
    fl = lambda x: None if x is None else np.ascontiguousarray(x[::-1])  # noqa: E731
    B = run(fl(left), fl(right), fl(ml), fl(mr), conv, steps, disp)
    nt = False
    for side in ("left", "right"):
        X, Y = getattr(A, side), getattr(B, side)
        if "disparity_map" not in X:
            continue
        xd, yd = X["disparity_map"].data[::-1], Y["disparity_map"].data
        xm, ym = X["validity_mask"].data[::-1], Y["validity_mask"].data
        dd = ~((xd == yd) | (np.isnan(xd) & np.isnan(yd)))
        dm = xm != ym
        if dd.any() or dm.any():
            r, c = np.argwhere(dd | dm)[0]
            ctx.violation("C13/vertical-flip-not-equivariant", f"{side} pixel {(int(r), int(c))} of flipped frame: d {xd[r, c]} vs "
                                                               f"{yd[r, c]}, m {int(xm[r, c])} vs {int(ym[r, c])} pipeline={steps}")
        if side == "left":
            nt = bool(((ym & INVB) != 0).any() and ((ym & INVB) == 0).any() and (left != left[::-1]).any())
    ctx.case(p, nontrivial=nt, classes=[steps[0][1]["matching_cost_method"]])


CHECKS = [
    Check("crop", crop_body, strategy=crop_cases, budget={"quick": (16, 20), "thorough": (16, 400)}),
    Check("flip", flip_body, strategy=flip_cases, budget={"quick": (4, 15), "thorough": (16, 300)}),
]
