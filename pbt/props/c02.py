"""C02 — the cost volume holds the configured similarity measure, NaN exactly where it is not computable.

The matching-cost step is driven through the machine (pipeline = {matching_cost}); `machine.left_cv` is compared
cell by cell with a naive per-pixel reference (pbt/ref/matching.py): exact for sad/ssd/census, 1e-5 for zncc."""
from __future__ import annotations

import math

import numpy as np
from hypothesis import strategies as st

from .. import drive, gen
from ..core import Check, Ctx
from ..ref import matching as ref

ID = "C02"
RULE = (
    "Hypothesis-generated pairs (rows, cols <= window+8, integer radiometry 0..3 / 0..20 / 0..255, mono-band or 2-3 "
    "named bands), sparse masks with no-data and invalid pixels on either side (default or user convention), scalar "
    "intervals or per-pixel grids with min <= max, measure in {sad, ssd, census, zncc}, odd windows 1-7 (census 3/5), "
    "subpix 1/2/4. Non-trivial = the volume has a finite and a NaN cost at some non-border pixel; distinct = distinct "
    "canonical payload. Classes: mask, fractional disparities, grids, multiband, window 1."
)
ASSUMPTIONS = [
    "integer-valued radiometry: float32 sums and the order-1 zoom used for sub-pixel shifts are exact, so sad/ssd/"
    "census are compared exactly and zncc within 1e-5",
    "intervals keep at least one full window overlap between the images (max|d| <= width - window); larger ones form "
    "a separate low-probability class whose only judged clause is 'does not raise' (known finding)",
]


@st.composite
def cases(draw):
    meth = draw(st.sampled_from(["sad", "ssd", "census", "zncc"]))
    w = draw(st.sampled_from([3, 5])) if meth == "census" else draw(st.sampled_from([1, 3, 3, 5, 7]))
    sub = draw(st.sampled_from([1, 1, 2, 4]))
    H = w + draw(st.integers(0, 6))
    W = w + draw(st.integers(1, 8))
    hi = draw(st.sampled_from([3, 20, 255]))
    nb = draw(st.sampled_from([1, 1, 1, 2, 3]))
    px = st.integers(0, hi)

    def img():
        return draw(st.lists(st.lists(px, min_size=W, max_size=W), min_size=H, max_size=H))

    left = [img() for _ in range(nb)]
    right = [img() for _ in range(nb)]
    if draw(st.integers(0, 3)) == 0:
        # a flat (saturated) patch at least one window wide in ONE of the two images: zero variance on one side only
        side = draw(st.sampled_from([left, right]))
        r0, c0 = draw(st.integers(0, H - w)), draw(st.integers(0, W - w))
        h_, w_ = draw(st.integers(w, H - r0)), draw(st.integers(w, W - c0))
        v = draw(px)
        for b_ in range(nb):
            for r_ in range(r0, r0 + h_):
                for c_ in range(c0, c0 + w_):
                    side[b_][r_][c_] = v
    conv = draw(st.sampled_from([(0, 1), (0, 1), (5, 7)]))
    oversize = draw(st.sampled_from([False] * 24 + [True]))
    lim = max(0, W - w)
    if oversize:
        a = draw(st.integers(-W - 2, W + 2))
        b = a + draw(st.integers(0, 3))
    else:
        a = draw(st.integers(-min(lim, 4), min(lim, 3)))
        b = min(min(lim, 4), a + draw(st.integers(0, 4)))
    grid = draw(st.integers(0, 2)) == 0 and not oversize
    p = {"meth": meth, "w": w, "sub": sub, "H": H, "W": W, "left": left, "right": right, "nb": nb,
         "band": draw(st.integers(0, nb - 1)), "right_perm": draw(st.permutations(list(range(nb)))),
         "valid": conv[0], "nodata": conv[1], "scale": draw(st.sampled_from([1, 1, 1, 2, 4])),
         # each image dataset announces its own mask convention
         "conv_right": draw(st.sampled_from([None, None, None, [1, 0], [2, 1], [0, 255]])),
         "mask_left": draw(gen.sparse_mask(H, W)), "mask_right": draw(gen.sparse_mask(H, W)),
         "disp": [a, b], "oversize": oversize,
         # with a validation step the machine also builds the right image's cost volume: judged by the same reference with
         # the two images exchanged and the interval mirrored
         "with_right": (not oversize) and draw(st.integers(0, 2)) == 0}
    if grid and b - a >= 2 and draw(st.booleans()):
        # intervals that share a common core: lower bounds within one sample of the global minimum, upper bounds within one
        # sample of the global maximum (every pixel searches the disparities in between)
        p["grid_min"] = draw(st.lists(st.lists(st.integers(a, a + 1), min_size=W, max_size=W), min_size=H, max_size=H))
        p["grid_max"] = draw(st.lists(st.lists(st.integers(b - 1, b), min_size=W, max_size=W), min_size=H, max_size=H))
    elif grid and b > a and draw(st.integers(0, 2)) == 0:
        # only one of the two bounds varies from pixel to pixel
        var = draw(st.lists(st.lists(st.integers(a, b), min_size=W, max_size=W), min_size=H, max_size=H))
        if draw(st.booleans()):
            p["grid_min"], p["grid_max"] = [[a] * W for _ in range(H)], var
        else:
            p["grid_min"], p["grid_max"] = var, [[b] * W for _ in range(H)]
    elif grid:
        gmin = draw(st.lists(st.lists(st.integers(a, b), min_size=W, max_size=W), min_size=H, max_size=H))
        gext = draw(st.lists(st.lists(st.integers(0, 2), min_size=W, max_size=W), min_size=H, max_size=H))
        p["grid_min"] = gmin
        p["grid_max"] = [[min(b, gmin[r][c] + gext[r][c]) for c in range(W)] for r in range(H)]
    return p


BANDS = ["r", "g", "b"]


def _judge_side(ctx, p, side, cv, img_a, img_b, msk_a, msk_b, dmin, dmax, H, W):
    """one cost volume of the machine against the reference (img_a: the image the volume belongs to)"""
    got = cv["cost_volume"].data
    disps, exp = ref.cost_volume(img_a, img_b, msk_a, msk_b, dmin, dmax, p["meth"], p["w"], p["sub"], 0, 1)
    if not np.array_equal(cv.coords["disp"].data.astype(float), disps):
        ctx.violation("C02/disparity-axis-wrong", f"{side}: {cv.coords['disp'].data.tolist()} expected {disps.tolist()}")
        return None
    tm = "max" if p["meth"] == "zncc" else "min"
    if cv.attrs.get("type_measure") != tm:
        ctx.violation("C02/type-measure-wrong", f"{side}: {cv.attrs.get('type_measure')} for {p['meth']}")
    nan_g, nan_e = np.isnan(got), np.isnan(exp)
    tag = f"{side} {p['meth']} w={p['w']} sub={p['sub']} shape={(H, W)} interval={p['disp']} grid={'grid_min' in p}"
    if (nan_g != nan_e).any():
        r, c, k = np.argwhere(nan_g != nan_e)[0]
        sig = "C02/computable-cost-is-nan" if nan_g[r, c, k] else "C02/not-computable-cost-is-finite"
        ctx.violation(sig, f"cell {(int(r), int(c))} d={disps[k]} got {got[r, c, k]} expected {exp[r, c, k]} {tag}")
    # costs are float32: sums of interpolated radiometry (sixteenths once squared) may need more than 24 significant bits
    tol = 1e-5 if p["meth"] == "zncc" else 0.0
    both = ~nan_g & ~nan_e
    with np.errstate(invalid="ignore"):
        bad = both & (np.abs(got - exp) > tol + 1e-6 * np.abs(np.where(both, exp, 0.0)))
    if bad.any():
        r, c, k = np.argwhere(bad)[0]
        ctx.violation("C02/cost-value-wrong", f"cell {(int(r), int(c))} d={disps[k]} got {got[r, c, k]} expected {exp[r, c, k]} "
                                              f"{tag} ({int(bad.sum())} cells)")
    cmax = cv.attrs.get("cmax")
    if both.any():
        m = float(np.nanmax(np.abs(got)))
        # (the reported value is an integer: a fractional maximum may exceed it by less than 1)
        if cmax is None or m >= float(cmax) + 1.0:
            ctx.violation("C02/cost-exceeds-cmax", f"max |cost| {m} cmax {cmax} {tag}")
    if p["meth"] in ("sad", "ssd") and cmax is not None:
        # the maximal cost of the measure: largest radiometric difference between the two bands, (squared,) times the window
        md = max(abs(float(img_a.max()) - float(img_b.min())), abs(float(img_b.max()) - float(img_a.min())))
        theory = (md if p["meth"] == "sad" else md * md) * p["w"] ** 2
        if not (math.floor(theory) - 1e-6 <= float(cmax) <= math.ceil(theory) + 1e-6):
            ctx.violation("C02/reported-maximal-cost-wrong", f"cmax {cmax}, the measure's maximum is {theory} {tag}")
    ctx.judged += int(got.size)
    return got


def body(ctx: Ctx, p: dict) -> None:
    H, W, nb = p["H"], p["W"], p["nb"]
    # radiometry: whole numbers, or halves / quarters (exact in float32; reflectances and resampled images are not integers)
    L = np.array(p["left"], dtype=np.float32) / np.float32(p.get("scale", 1))
    R = np.array(p["right"], dtype=np.float32) / np.float32(p.get("scale", 1))
    ML = gen._mask(p["mask_left"], H, W, p["valid"], p["nodata"])
    vr, nr = p.get("conv_right") or (p["valid"], p["nodata"])
    MR = gen._mask(p["mask_right"], H, W, vr, nr)
    # the reference reads canonical masks (0 valid, 1 no-data, other invalid)
    MLc, MRc = gen._mask(p["mask_left"], H, W, 0, 1), gen._mask(p["mask_right"], H, W, 0, 1)
    if "grid_min" in p:
        dmin, dmax = np.array(p["grid_min"], dtype=np.float32), np.array(p["grid_max"], dtype=np.float32)
    else:
        dmin, dmax = p["disp"]
    mc = {"matching_cost_method": p["meth"], "window_size": p["w"], "subpix": p["sub"]}
    bands = right_bands = None
    if nb > 1:
        bands = BANDS[:nb]
        mc["band"] = bands[p["band"]]
        # the right file may store its bands in another order: bands are selected by name, on each image
        perm = p.get("right_perm", list(range(nb)))
        right_bands = [bands[i] for i in perm]
        Lin, Rin = L, R[perm]
    else:
        Lin, Rin = L[0], R[0]
    pipe = {"matching_cost": mc}
    if p.get("with_right"):
        pipe.update(disparity={"disparity_method": "wta"}, validation={"validation_method": "cross_checking_accurate"})
    try:
        # with left interval grids the cross-checking step asks for right grids as well: the mirrored ones
        rdisp = (-dmax, -dmin) if (p.get("with_right") and "grid_min" in p) else None
        res = drive.run_pipeline(Lin, Rin, pipe, (dmin, dmax), msk_left=ML, msk_right=MR, bands=bands, right_disp=rdisp,
                                 right_bands=right_bands, valid=p["valid"], nodata=p["nodata"], valid_right=vr,
                                 nodata_right=nr)
    except Exception as exc:  # noqa: BLE001
        if p["oversize"] and max(abs(p["disp"][0]), abs(p["disp"][1])) > W - p["w"]:
            ctx.violation("C02/disparity-beyond-image-overlap-raises",
                          f"{type(exc).__name__}: {str(exc)[:120]} (interval {p['disp']}, width {W}, window {p['w']})")
            ctx.case(p, nontrivial=False, classes=["oversized-interval"])
            return
        raise
    sides = [("left", res.machine.left_cv, L[p["band"]], R[p["band"]], MLc, MRc, dmin, dmax)]
    if p.get("with_right"):
        sides.append(("right", res.machine.right_cv, R[p["band"]], L[p["band"]], MRc, MLc, -dmax, -dmin))
    for side, cv, img_a, img_b, msk_a, msk_b, lo_, hi_ in sides:
        got = _judge_side(ctx, p, side, cv, img_a, img_b, msk_a, msk_b, lo_, hi_, H, W)
        if got is None:
            return
        if side == "left":
            got_left = got
    got = got_left
    h = p["w"] // 2
    core_g = got[h:H - h, h:W - h]
    classes = [p["meth"]]
    if p.get("with_right"):
        classes.append("right-cost-volume")
    if ML is not None or MR is not None:
        classes.append("mask")
    if MR is not None and (vr, nr) != (p["valid"], p["nodata"]):
        classes.append("right-mask-own-convention")
    if p["sub"] > 1:
        classes.append("fractional")
    if "grid_min" in p:
        classes.append("grid")
    if nb > 1:
        classes.append("multiband")
        if p.get("right_perm", list(range(nb))) != list(range(nb)):
            classes.append("right-band-order-differs")
    if p["w"] == 1:
        classes.append("window1")
    if p["oversize"]:
        classes.append("oversized-interval")
    ctx.case(p, nontrivial=bool(core_g.size and np.isnan(core_g).any() and (~np.isnan(core_g)).any()), classes=classes)


CHECKS = [
    Check("machine", body, strategy=cases, budget={"quick": (16, 60), "thorough": (16, 1500)}),
]
