"""C15 — a multiscale step really processes num_scales scales, coarse to fine.

Generated pairs and legal pipelines around a multiscale step are run through `pandora.run`; harness-side wrappers
record, for every executed step, the scale, the image size and the per-pixel interval grids handed to the matching
cost, and the disparity map entering the multiscale step.  A reference restates the coarse-to-fine interval rule."""
from __future__ import annotations

import copy
import math

import numpy as np
from hypothesis import strategies as st

from .. import build, drive, gen
from ..core import Check, Ctx

ID = "C15"
RULE = (
    "Hypothesis-generated pairs 24-64 px (mono-band, or 2-3 bands with a band parameter; sparse masks), num_scales "
    "2-3, scale_factor 2-3, marge 0-2, intervals divisible or not by factor^(n-1), pipelines matching_cost [cbca] "
    "disparity {refinement|filter|validation}* multiscale {filter|refinement|validation}*. Non-trivial = >= 2 scales "
    "observed and the finest level searched >= 2 different per-pixel intervals; distinct = distinct canonical payload."
)
ASSUMPTIONS = [
    "image sizes per level: floor or ceil of size/factor both admissible; coarsest interval: the recorded grids equal "
    "user/factor^(n-1) and the searched axis ends lie between its floor and ceil",
    "the interval rule is asserted as: there exists a coarse pixel within 1 of the geometric parent whose rule value "
    "equals the searched interval (the up-sampling geometry of non-divisible sizes is not pinned)",
]

INV = 0b01111000011


@st.composite
def cases(draw):
    nb = draw(st.sampled_from([1, 1, 1, 1, 2, 3]))
    pair = draw(gen.image_pair(min_rows=24, max_rows=64, min_cols=24, max_cols=64, max_val=30, masks=True, tile_max=8,
                               conventions="per-image"))
    sf = draw(st.sampled_from([2, 2, 3]))
    ns = draw(st.sampled_from([2, 2, 3]))
    if sf ** (ns - 1) * 8 > min(pair["H"], pair["W"]):
        ns = 2
    marge = draw(st.integers(0, 2))
    w = draw(st.sampled_from([1, 3, 5]))
    mc = {"matching_cost_method": draw(st.sampled_from(["sad", "census", "zncc"])) if w > 1 else "sad", "window_size": w}
    steps = [["matching_cost", mc]]
    if nb == 1 and draw(st.integers(0, 3)) == 0:  # cbca is a mono-band step
        steps.append(["aggregation", {"aggregation_method": "cbca", "cbca_distance": 2}])
    steps.append(["disparity", {"disparity_method": "wta", "invalid_disparity": draw(st.sampled_from([-9999, "NaN"]))}])
    cnt = {"filter": 0, "refinement": 0, "validation": 0}

    def post(nmax):
        out = []
        for _ in range(draw(st.integers(0, nmax))):
            k = draw(st.sampled_from(["filter", "refinement", "validation"]))
            if k == "validation" and cnt[k]:
                continue
            name = k if cnt[k] == 0 else f"{k}.{cnt[k]}"
            cnt[k] += 1
            if k == "filter":
                out.append([name, {"filter_method": "median", "filter_size": 3}])
            elif k == "refinement":
                out.append([name, {"refinement_method": draw(st.sampled_from(["vfit", "quadratic"]))}])
            else:
                out.append([name, {"validation_method": "cross_checking_accurate"}])
        return out

    steps += post(2)
    ms = {"multiscale_method": "fixed_zoom_pyramid"}
    if not (ns == 2 and draw(st.booleans())):
        ms["num_scales"] = ns
    if not (sf == 2 and draw(st.booleans())):
        ms["scale_factor"] = sf
    if not (marge == 1 and draw(st.booleans())):
        ms["marge"] = marge
    steps.append(["multiscale", ms])
    steps += post(2)
    a = draw(st.integers(-9, 0))
    b = draw(st.integers(0, 9))
    p = {"pair": pair, "pipeline": steps, "disp": [a, b], "ns": ns, "sf": sf, "marge": marge, "nb": nb,
         "warm": draw(st.integers(0, 3)) == 0}
    if nb > 1:
        mc["band"] = ["r", "g", "b"][draw(st.integers(0, nb - 1))]
        p["band_offsets"] = draw(st.lists(st.integers(0, 5), min_size=nb, max_size=nb))
    return p


def body(ctx: Ctx, p: dict) -> None:
    left, right, ml, mr = gen.materialise_pair(p["pair"])
    H, W = left.shape
    ns, sf, marge = p["ns"], p["sf"], p["marge"]
    a, b = p["disp"]
    bands = None
    if p["nb"] > 1:
        bands = ["r", "g", "b"][:p["nb"]]
        left = np.stack([left + o for o in p["band_offsets"]]).astype(np.float32)
        right = np.stack([right + o for o in p["band_offsets"]]).astype(np.float32)
    pipe = gen.pipe_dict(p["pipeline"])
    names = list(pipe)
    has_val = any(n.split(".")[0] == "validation" for n in names)
    l, r = drive.make_inputs(left, right, (a, b), ml, mr, None, bands, **gen.conv_kwargs(p["pair"]))
    lb, rb = build.snapshot(l), build.snapshot(r)
    from pandora.state_machine import PandoraMachine

    machine = PandoraMachine()
    checked = drive.check_pipeline(machine, pipe, l, r)
    mcs, mss = [], []

    def before(m, step, kind):
        if kind == "matching_cost":
            rec = {"scale": m.current_scale, "shape": (int(m.left_img.sizes["row"]), int(m.left_img.sizes["col"])),
                   "min": np.array(m.disp_min, dtype=float).copy(), "max": np.array(m.disp_max, dtype=float).copy(),
                   "axis": m.left_cv.coords["disp"].data.copy(),
                   "finite": bool(np.isfinite(m.left_img["im"].data).all() and np.isfinite(m.right_img["im"].data).all()),
                   "msk": {side: (img["msk"].data.copy() if "msk" in img else None)
                           for side, img in (("left", m.left_img), ("right", m.right_img))}}
            if has_val and m.right_cv is not None:
                rec["rmin"] = np.array(m.right_disp_min, dtype=float).copy()
                rec["rmax"] = np.array(m.right_disp_max, dtype=float).copy()
            mcs.append(rec)
        if kind == "multiscale":
            rec = {"d": m.left_disparity["disparity_map"].data.copy(), "m": m.left_disparity["validity_mask"].data.copy(),
                   "win": int(m.left_disparity.attrs["window_size"]),
                   "umin": a / sf ** m.current_scale, "umax": b / sf ** m.current_scale}
            if has_val and "disparity_map" in m.right_disparity:
                rec["rd"] = m.right_disparity["disparity_map"].data.copy()
                rec["rm"] = m.right_disparity["validity_mask"].data.copy()
                rec["rumin"] = -b / sf ** m.current_scale
                rec["rumax"] = -a / sf ** m.current_scale
            mss.append(rec)

    if p.get("warm"):
        # the machine has already run the same steps with ANOTHER marge: nothing of that run may survive
        warm = {n: (dict(c, marge=marge + 2) if n.split(".")[0] == "multiscale" else copy.deepcopy(c)) for n, c in pipe.items()}
        wl, wr = drive.make_inputs(left, right, (a, b), ml, mr, None, bands, **gen.conv_kwargs(p["pair"]))
        drive.run_checked(machine, wl, wr, drive.check_pipeline(machine, warm, wl, wr))
        checked = drive.check_pipeline(machine, pipe, l, r)
    spy = drive.Spy(before=before)
    with spy:
        lo, ro = drive.run_checked(machine, l, r, checked)
    tag = f"ns={ns} sf={sf} marge={marge} interval={p['disp']} shape={(H, W)} pipeline={names}"
    # ---- inputs untouched
    d = build.snapshot_diff(lb, build.snapshot(l)) + build.snapshot_diff(rb, build.snapshot(r))
    if d:
        ctx.violation("C15/input-datasets-modified", f"{d} {tag}")
    # ---- executions per scale
    idx_ms = names.index("multiscale")
    per_step = {}
    for kind, step, scale, shape in spy.events:
        per_step.setdefault(step, []).append((scale, shape))
    scales_all = list(range(ns - 1, -1, -1))
    for i, n in enumerate(names):
        got = [s for s, _ in per_step.get(n, [])]
        exp = scales_all if i < idx_ms else ([s for s in scales_all if s != 0] if i == idx_ms else [0])
        if got != exp:
            sig = "C15/multiscale-step-ignored" if (n == "matching_cost" and got == [0]) else "C15/step-executions-per-scale-wrong"
            ctx.violation(sig, f"step {n} ran at scales {got}, expected {exp} {tag}")
            if sig.endswith("ignored"):
                ctx.case(p, False, ["ignored"])
                return
    # ---- sizes
    shapes = [m["shape"] for m in mcs]
    if shapes[-1] != (H, W):
        ctx.violation("C15/last-scale-not-full-resolution", f"{shapes} {tag}")
    for k in range(len(shapes) - 1):
        for big, small in zip(shapes[k + 1], shapes[k]):
            if not math.floor(big / sf) <= small <= math.ceil(big / sf):
                ctx.violation("C15/level-size-not-divided-by-factor", f"{shapes} {tag}")
    if lo["disparity_map"].shape != (H, W) or (has_val and ro["disparity_map"].shape != (H, W)):
        ctx.violation("C15/output-size-wrong", f"{lo['disparity_map'].shape} {tag}")
    if has_val != ("disparity_map" in ro):
        ctx.violation("C15/right-products-presence", f"validation={has_val} {tag}")
    if not all(m["finite"] for m in mcs):
        ctx.violation("C15/level-image-not-finite", f"levels {[m['scale'] for m in mcs if not m['finite']]} hold NaN/inf "
                                                    f"radiometry for finite inputs {tag}")
    # ---- each level carries each image's OWN mask, decimated (masked pixels are filled and flagged 1024 at the coarse levels)
    conv = gen.conv_kwargs(p["pair"])
    for side, m_in, val_ in (("left", ml, conv["valid"]), ("right", mr, conv["valid_right"])):
        if m_in is None:
            continue
        for rec in mcs:
            lvl = rec["scale"]
            got_m = rec["msk"][side]
            if lvl == 0 or got_m is None:
                continue
            exp_m = np.where(m_in != val_, 1024, m_in)  # masked pixels (no-data or invalid) are filled and flagged
            for _ in range(lvl):
                exp_m = exp_m[::sf, ::sf]
            if got_m.shape != exp_m.shape or not np.array_equal(got_m, exp_m):
                ctx.violation("C15/level-mask-not-the-image-own-mask", f"{side} image, level {lvl}: mask differs from the decimated "
                                                                       f"input mask {tag}")
                break
    # ---- coarsest interval
    f = sf ** (ns - 1)
    c0 = mcs[0]
    if not (np.allclose(c0["min"], a / f) and np.allclose(c0["max"], b / f)):
        ctx.violation("C15/coarsest-interval-wrong", f"grids min {np.unique(c0['min'])} max {np.unique(c0['max'])} expected "
                                                     f"{a / f}, {b / f} {tag}")
    ax = c0["axis"]
    if not (math.floor(a / f) <= float(ax[0]) <= math.ceil(a / f) and math.floor(b / f) <= float(ax[-1]) <= math.ceil(b / f)):
        ctx.violation("C15/coarsest-axis-wrong", f"axis ends {ax[0]},{ax[-1]} for {a / f},{b / f} {tag}")
    # ---- coarse-to-fine rule, left and right
    varied = False

    def rule(dmap, vm, umin, umax, win, fmin, fmax, side, level):
        nonlocal varied
        off = (win - 1) // 2
        ch, cw = dmap.shape
        fh, fw = fmin.shape
        valid = (vm.astype(int) & INV) == 0

        def refint(i, j):
            if not valid[i, j] or i < off or i >= ch - off or j < off or j >= cw - off:
                return (sf * int(umin), sf * int(umax))
            wv = dmap[i - off:i + off + 1, j - off:j + off + 1][valid[i - off:i + off + 1, j - off:j + off + 1]]
            return (sf * (float(wv.min()) - marge), sf * (float(wv.max()) + marge))

        cache = {}
        nbad = 0
        first = None
        for i in range(fh):
            for j in range(fw):
                pi, pj = i // sf, j // sf
                ok = False
                for di in (-1, 0, 1):
                    for dj in (-1, 0, 1):
                        ii, jj = pi + di, pj + dj
                        if 0 <= ii < ch and 0 <= jj < cw:
                            if (ii, jj) not in cache:
                                cache[(ii, jj)] = refint(ii, jj)
                            e = cache[(ii, jj)]
                            if abs(e[0] - fmin[i, j]) < 1e-4 and abs(e[1] - fmax[i, j]) < 1e-4:
                                ok = True
                if not ok:
                    nbad += 1
                    first = first or (i, j, float(fmin[i, j]), float(fmax[i, j]), cache.get((min(pi, ch - 1), min(pj, cw - 1))))
        ctx.judged += fh * fw
        if nbad:
            ctx.violation("C15/fine-interval-not-from-coarse-disparities",
                          f"{side} level {level}: {nbad}/{fh * fw} pixels, first (i,j,min,max,parent rule)={first} {tag}")
        if len(np.unique(fmin)) > 1 or len(np.unique(fmax)) > 1:
            varied = True

    for k, ms in enumerate(mss):
        if k + 1 >= len(mcs):
            break
        nxt = mcs[k + 1]
        fh, fw = nxt["shape"]
        if nxt["min"].shape[0] < fh or nxt["min"].shape[1] < fw:
            ctx.violation("C15/interval-grid-smaller-than-image", f"grid {nxt['min'].shape} image {nxt['shape']} {tag}")
            continue
        # the up-sampled grid may be one row / column larger than the image: the top-left part is the one used
        for key in ("min", "max", "rmin", "rmax"):
            if key in nxt:
                nxt[key] = nxt[key][:fh, :fw]
        # the recorded grids are the searched ones (already multiplied by the factor)
        rule(ms["d"], ms["m"], ms["umin"], ms["umax"], ms["win"], nxt["min"], nxt["max"], "left", k)
        if "rd" in ms and "rmin" in nxt:
            rule(ms["rd"], ms["rm"], ms["rumin"], ms["rumax"], ms["win"], nxt["rmin"], nxt["rmax"], "right", k)
    classes = [f"ns{ns}", f"sf{sf}", f"marge{marge}"]
    if has_val:
        classes.append("validation")
    if p.get("warm"):
        classes.append("machine-ran-another-marge-before")
    if p["nb"] > 1:
        classes.append("multiband")
    if ml is not None or mr is not None:
        classes.append("mask")
        if p["pair"]["valid"] != 0 or p["pair"].get("valid_right", 0) != 0:
            classes.append("mask-own-convention")
    if a % f or b % f:
        classes.append("non-divisible-interval")
    ctx.case(p, nontrivial=bool(len(mcs) >= 2 and varied), classes=classes)


CHECKS = [
    Check("pyramid", body, strategy=cases, budget={"quick": (16, 12), "thorough": (16, 400)}),
]
