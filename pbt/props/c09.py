"""C09 — the requested disparity interval is honoured and does not leak into costs.

Metamorphic, exact: (nested) the volume of [a,b] equals the slice of the volume of any larger [A,B], after matching
cost and after cbca; (grids) per-pixel grids give the scalar run's costs inside each pixel's interval and NaN
outside, constant grids are equivalent to the scalar interval through the whole pipeline; (range) every valid final
disparity lies in the global interval whatever followed, in its own interval right after disparity / refinement, and
disparity_interval is the interval searched."""
from __future__ import annotations

import copy

import numpy as np
from hypothesis import strategies as st

from .. import build, drive, gen
from ..core import Check, Ctx

ID = "C09"
RULE = (
    "Hypothesis-generated pairs (7-14 x 10-20, integer radiometry, sparse masks), measures sad/ssd/census/zncc, subpix "
    "1/2/4, with/without cbca. nested: intervals [a,b] within [A,B]; non-trivial = they share >= 2 disparities and the "
    "larger has >= 2 more. grids: per-pixel min/max grids inside [A,B] (random, banded or constant); non-trivial = "
    "non-constant grids with both in-interval and out-of-interval cells, or a constant-grid full-pipeline comparison "
    "with >= 1 invalid pixel. range: legal single-scale pipelines (refinement, filters, validation with filling) on "
    "scalar intervals and grids; non-trivial = >= 1 valid pixel changed by a post-disparity step. distinct = distinct "
    "canonical payload."
)
ASSUMPTIONS = [
    "with cbca and non-constant grids equality with the scalar run is not asserted (aggregation legitimately mixes "
    "neighbours whose intervals differ)",
    "own-interval clause after refinement is asserted only while no filter / validation has run before it",
]

INV = 0b01111000011


def mc_pipeline(draw, with_cbca):
    steps = [["matching_cost", draw(gen.matching_cost_cfg())]]
    if with_cbca:
        steps.append(["aggregation", {"aggregation_method": "cbca", "cbca_distance": draw(st.sampled_from([1, 2, 3, 5])),
                                      "cbca_intensity": draw(st.sampled_from([1.0, 5.0, 30.0]))}])
    return steps


@st.composite
def nested_cases(draw):
    pair = draw(gen.image_pair(min_rows=7, max_rows=14, min_cols=12, max_cols=20, max_val=20, masks=True))
    pipe = mc_pipeline(draw, draw(st.booleans()))
    A = draw(st.integers(-5, 0))
    A, B = gen.clamp_interval([A, A + draw(st.integers(1, 7))], pair["W"], pipe)
    a = draw(st.integers(A, B))
    b = draw(st.integers(a, B))
    # with a validation step the machine builds the right image's volume as well (two volumes per matching-cost object)
    return {"pair": pair, "pipeline": pipe, "big": [A, B], "small": [a, b], "with_right": draw(st.integers(0, 2)) == 0}


def nested_body(ctx: Ctx, p: dict) -> None:
    kw = gen.pair_kwargs(p["pair"])
    full = gen.pipe_dict(p["pipeline"])
    if p.get("with_right"):
        full.update(disparity={"disparity_method": "wta"}, validation={"validation_method": "cross_checking_accurate"})
    mb = drive.run_pipeline(pipeline=copy.deepcopy(full), disp=tuple(p["big"]), **kw).machine
    ms = drive.run_pipeline(pipeline=copy.deepcopy(full), disp=tuple(p["small"]), **kw).machine
    for side, big, small in [("left", mb.left_cv, ms.left_cv)] + ([("right", mb.right_cv, ms.right_cv)] if p.get("with_right") else []):
        _nested(ctx, p, side, big, small)
    sm_size = int(ms.left_cv["cost_volume"].data.size)
    shared = len(ms.left_cv.coords["disp"].data)
    ctx.judged += sm_size
    ctx.case(p, nontrivial=bool(p["small"][1] - p["small"][0] >= 1 and (p["big"][1] - p["big"][0]) - (p["small"][1] - p["small"][0]) >= 2),
             classes=[p["pipeline"][-1][0], p["pipeline"][0][1]["matching_cost_method"]] + (["shared>=2"] if shared >= 2 else []) +
             (["right-volume"] if p.get("with_right") else []))


def _nested(ctx: Ctx, p: dict, side: str, big, small) -> None:
    ax_b = [float(x) for x in big.coords["disp"].data]
    ax_s = [float(x) for x in small.coords["disp"].data]
    if any(d not in ax_b for d in ax_s):
        ctx.violation("C09/axis-not-nested", f"{ax_s} not within {ax_b}")
        return
    idx = [ax_b.index(d) for d in ax_s]
    sl = big["cost_volume"].data[:, :, idx]
    sm = small["cost_volume"].data
    if not np.array_equal(sl, sm, equal_nan=True):
        bad = ~((sl == sm) | (np.isnan(sl) & np.isnan(sm)))
        r, c, k = np.argwhere(bad)[0]
        step = p["pipeline"][-1][0]
        ctx.violation(f"C09/cost-depends-on-requested-interval/{step}",
                      f"{side} cell {(int(r), int(c))} d={ax_s[k]}: {sm[r, c, k]} with {p['small']} but {sl[r, c, k]} with {p['big']} "
                      f"({int(bad.sum())} cells) cfg={p['pipeline']}")


@st.composite
def grid_spec(draw, H, W, A, B, constant=None):
    kind = draw(st.sampled_from(["random", "random", "bands", "constant"]))
    if constant is not None:
        kind = "constant" if constant else draw(st.sampled_from(["random", "random", "bands"]))
    if kind == "constant":
        a = draw(st.integers(A, B))
        b = draw(st.integers(a, B))
        return {"kind": kind, "a": a, "b": b}
    if kind == "bands":
        n = draw(st.integers(2, 4))
        bands = []
        for _ in range(n):
            a = draw(st.integers(A, B))
            bands.append([a, draw(st.integers(a, B))])
        return {"kind": kind, "bands": bands, "vertical": draw(st.booleans())}
    gmin = draw(st.lists(st.lists(st.integers(A, B), min_size=W, max_size=W), min_size=H, max_size=H))
    ext = draw(st.lists(st.lists(st.integers(0, 3), min_size=W, max_size=W), min_size=H, max_size=H))
    return {"kind": kind, "gmin": gmin, "ext": ext}


def materialise_grid(g, H, W, A, B):
    if g["kind"] == "constant":
        return np.full((H, W), g["a"], dtype=np.float32), np.full((H, W), g["b"], dtype=np.float32)
    if g["kind"] == "bands":
        n = len(g["bands"])
        idx = (np.arange(W) * n // W)[None, :].repeat(H, 0) if g["vertical"] else (np.arange(H) * n // H)[:, None].repeat(W, 1)
        lo = np.array([b[0] for b in g["bands"]], dtype=np.float32)[idx]
        hi = np.array([b[1] for b in g["bands"]], dtype=np.float32)[idx]
        return lo, hi
    lo = np.array(g["gmin"], dtype=np.float32)
    hi = np.minimum(lo + np.array(g["ext"], dtype=np.float32), B)
    return lo, hi


@st.composite
def grids_cases(draw):
    pair = draw(gen.image_pair(min_rows=7, max_rows=12, min_cols=10, max_cols=16, max_val=20, masks=True))
    constant = draw(st.integers(0, 3)) == 0
    pipe = draw(gen.legal_pipeline(validation="maybe")) if constant else mc_pipeline(draw, False)
    A = draw(st.integers(-4, 2))
    A, B = gen.clamp_interval([A, A + draw(st.integers(1, 6))], pair["W"], pipe)
    g = draw(grid_spec(pair["H"], pair["W"], A, B, constant))
    return {"pair": pair, "AB": [A, B], "grid": g, "pipeline": pipe}


def grids_body(ctx: Ctx, p: dict) -> None:
    kw = gen.pair_kwargs(p["pair"])
    H, W = p["pair"]["H"], p["pair"]["W"]
    A, B = p["AB"]
    lo, hi = materialise_grid(p["grid"], H, W, A, B)
    gmin, gmax = int(lo.min()), int(hi.max())
    names = [n.split(".")[0] for n, _ in p["pipeline"]]
    right_disp = (-hi, -lo) if "validation" in names else None
    G = drive.run_pipeline(pipeline=gen.pipe_dict(p["pipeline"]), disp=(lo, hi), right_disp=right_disp, **kw)
    S = drive.run_pipeline(pipeline=gen.pipe_dict(p["pipeline"]), disp=(gmin, gmax), **kw)
    cg, cs = G.machine.left_cv, S.machine.left_cv
    axis = [float(x) for x in cs.coords["disp"].data]
    if [float(x) for x in cg.coords["disp"].data] != axis:
        ctx.violation("C09/grid-axis-differs", f"{cg.coords['disp'].data.tolist()} vs {axis}")
        return
    vg, vs = cg["cost_volume"].data, cs["cost_volume"].data
    ax = np.array(axis)[None, None, :]
    inside = (ax >= lo[:, :, None]) & (ax <= hi[:, :, None])
    nontrivial = False
    if p["grid"]["kind"] == "constant":
        for side in ("left", "right"):
            x, y = getattr(G, side), getattr(S, side)
            if set(x.data_vars) != set(y.data_vars):
                ctx.violation("C09/constant-grid-products-differ", f"{side}: {sorted(x.data_vars)} vs {sorted(y.data_vars)}")
                continue
            for v in x.data_vars:
                if not np.array_equal(x[v].data, y[v].data, equal_nan=x[v].dtype.kind == "f"):
                    ctx.violation(f"C09/constant-grid-differs-from-scalar/{v}", f"{side} pipeline={p['pipeline']}")
        if not np.array_equal(vg, vs, equal_nan=True):
            ctx.violation("C09/constant-grid-differs-from-scalar/cost_volume", f"pipeline={p['pipeline']}")
        nontrivial = bool(((S.left["validity_mask"].data & INV) != 0).any()) if "validity_mask" in S.left else False
    else:
        leak = ~np.isnan(vg) & ~inside
        if leak.any():
            r, c, k = np.argwhere(leak)[0]
            ctx.violation("C09/cost-outside-pixel-interval-not-nan", f"cell {(int(r), int(c))} d={axis[k]} interval "
                                                                     f"[{lo[r, c]},{hi[r, c]}] cost {vg[r, c, k]}")
        diff = inside & ~((vg == vs) | (np.isnan(vg) & np.isnan(vs)))
        if diff.any():
            r, c, k = np.argwhere(diff)[0]
            ctx.violation("C09/grid-cost-differs-from-scalar", f"cell {(int(r), int(c))} d={axis[k]}: grid {vg[r, c, k]} scalar "
                                                               f"{vs[r, c, k]} ({int(diff.sum())} cells)")
        nontrivial = bool(inside.any() and (~inside).any() and (lo.min() != lo.max() or hi.min() != hi.max()))
    ctx.judged += int(vg.size)
    ctx.case(p, nontrivial=nontrivial, classes=[p["grid"]["kind"]])


@st.composite
def range_cases(draw):
    pair = draw(gen.image_pair(min_rows=7, max_rows=12, min_cols=10, max_cols=16, max_val=20, masks=True))
    pipe = draw(gen.legal_pipeline(validation="maybe"))
    if draw(st.integers(0, 2)) == 0:
        # a filter between the disparity step and a refinement: refinement then works on disparities it did not pick
        i_d = [n for n, _ in pipe].index("disparity")
        pipe.insert(i_d + 1, ["filter.pre", {"filter_method": "median", "filter_size": 3}])
        if draw(st.booleans()):  # both types of measure (min / max) in this class
            pipe[0][1]["matching_cost_method"] = "zncc"
        if not any(n.split(".")[0] == "refinement" for n, _ in pipe[i_d + 2:]):
            pipe.insert(i_d + 2, ["refinement.post", {"refinement_method": draw(st.sampled_from(["vfit", "quadratic"]))}])
    A = draw(st.integers(-5, 3))
    A, B = gen.clamp_interval([A, A + draw(st.integers(0, 5))], pair["W"], pipe)
    use_grid = draw(st.booleans())
    if draw(st.integers(0, 5)) == 0:
        # a strip (far from square) with wide invalid blocks and outliers, an interval that excludes 0 and a filling step:
        # the pixels to fill have their nearest valid pixel farther away than the short side of the map
        pair = draw(gen.image_pair(min_rows=5, max_rows=7, min_cols=26, max_cols=40, max_val=20, masks=True, tile_max=6))
        x0 = draw(st.integers(2, 12))
        pair["mask_left"] = (pair["mask_left"] or []) + [["rect", 0, x0, pair["H"] - 1, min(pair["W"] - 1, x0 + draw(st.integers(7, 12))), 2]]
        pair["noise"] = {"seed": draw(st.integers(0, 10 ** 6)), "frac": draw(st.sampled_from([0.1, 0.25]))}
        pipe = [["matching_cost", {"matching_cost_method": draw(st.sampled_from(["sad", "census"])), "window_size": 3}],
                ["disparity", {"disparity_method": "wta", "invalid_disparity": draw(st.sampled_from([-9999, "NaN"]))}],
                ["validation", {"validation_method": "cross_checking_accurate", "cross_checking_threshold": 0,
                                "interpolated_disparity": draw(st.sampled_from(["sgm", "sgm", "mc-cnn"]))}]]
        A, B = draw(st.sampled_from([[1, 4], [2, 3], [-4, -1], [-3, -2]]))
        use_grid = False
    if draw(st.integers(0, 3)) == 0:
        # invalid pixels hold a finite value just outside the interval; later steps must not mix it into valid pixels
        for n_, c_ in pipe:
            if n_.split(".")[0] == "disparity":
                c_["invalid_disparity"] = draw(st.sampled_from([B + 1, A - 1, B + 2]))
        if not any(c_.get("filter_method") == "bilateral" for _, c_ in pipe) and draw(st.booleans()):
            pipe.append(["filter.inv", {"filter_method": "bilateral", "sigma_space": draw(st.sampled_from([0.7, 1.0])),
                                        "sigma_color": draw(st.sampled_from([1.0, 2.0, 5.0]))}])
    if draw(st.integers(0, 7)) == 0:
        # saturated scene: a white left image over a black right image - every computable cost EQUALS the measure's maximal
        # cost; with per-pixel grids the winner must still come from the pixel's own interval
        H_, W_ = pair["H"], pair["W"]
        pair = dict(pair, mode="indep", left=[[255] * W_ for _ in range(H_)], right=[[0] * W_ for _ in range(H_)], patch_left=[],
                    mask_left=None, mask_right=None)
        pair.pop("noise", None)
        pipe = [["matching_cost", {"matching_cost_method": draw(st.sampled_from(["sad", "ssd"])), "window_size": draw(st.sampled_from([1, 3])),
                                   "subpix": draw(st.sampled_from([1, 2]))}],
                ["disparity", {"disparity_method": "wta", "invalid_disparity": -9999}]]
        use_grid = True
    if not use_grid and draw(st.integers(0, 7)) == 0:
        # nearly everything masked in the left image: a few isolated usable pixels, no valid pixel in sight of one another;
        # whatever the filling does with them, a pixel that ends up valid holds a disparity of the interval
        H_, W_ = pair["H"], pair["W"]
        keep = draw(st.lists(st.tuples(st.integers(0, H_ - 1), st.integers(0, W_ - 1)), min_size=1, max_size=4, unique=True))
        pair["mask_left"] = [["rect", 0, 0, H_ - 1, W_ - 1, 2]] + [[r_, c_, 0] for r_, c_ in keep]
        pipe = [["matching_cost", {"matching_cost_method": "sad", "window_size": 1, "subpix": 2}],
                ["disparity", {"disparity_method": "wta", "invalid_disparity": draw(st.sampled_from([-9999, "NaN"]))}],
                ["validation", {"validation_method": "cross_checking_accurate", "cross_checking_threshold": 0,
                                "interpolated_disparity": draw(st.sampled_from(["mc-cnn", "sgm"]))}]]
    p = {"pair": pair, "AB": [A, B], "pipeline": pipe,
         # the machine may have served before: a coarse-to-fine run (scale factor 2 or 3) or a run over another interval
         "used": draw(st.sampled_from([None, None, None, "pyramid-2", "pyramid-3", "other-interval"]))}
    if not use_grid and draw(st.integers(0, 3)) == 0:
        ra = -B + draw(st.sampled_from([-2, -1, 1]))
        # (kept, like the left one, where a full window of overlap remains: beyond lives C02's known finding)
        p["right_interval"] = gen.clamp_interval([ra, max(ra, -A + draw(st.sampled_from([-1, 0, 1, 2])))], pair["W"], pipe)
    if use_grid:
        p["grid"] = draw(grid_spec(pair["H"], pair["W"], A, B))
    return p


def range_body(ctx: Ctx, p: dict) -> None:
    kw = gen.pair_kwargs(p["pair"])
    H, W = p["pair"]["H"], p["pair"]["W"]
    A, B = p["AB"]
    names = [n.split(".")[0] for n, _ in p["pipeline"]]
    if "grid" in p:
        lo, hi = materialise_grid(p["grid"], H, W, A, B)
        disp = (lo, hi)
        right_disp = (-hi, -lo) if "validation" in names else None
    else:
        lo, hi = np.full((H, W), A, dtype=np.float32), np.full((H, W), B, dtype=np.float32)
        disp = (A, B)
        right_disp = None
        if p.get("right_interval") and "validation" in names:
            # the right image comes with its OWN [min, max] interval, which is not the mirror of the left one
            right_disp = tuple(p["right_interval"])
    rlo, rhi = (float(right_disp[0]), float(right_disp[1])) if (right_disp is not None and np.ndim(right_disp[0]) == 0) else (None, None)
    gmin, gmax = float(lo.min()), float(hi.max())
    state = {"pure": True, "changed": False, "prev": None, "offsample_refined": False, "subpix": 1}

    def before(machine, step, kind):
        if kind == "refinement":
            d0 = machine.left_disparity["disparity_map"].data
            m0 = machine.left_disparity["validity_mask"].data
            axis = machine.left_cv.coords["disp"].data.astype(np.float64)
            state["subpix"] = int(machine.left_cv.attrs["subpixel"])
            on = np.isin(d0.astype(np.float64), axis)
            state["off_mask"] = ((m0 & INV) == 0) & ~on
            if state["off_mask"].any():
                state["offsample_refined"] = True
            rd = machine.right_disparity
            if rd is not None and "disparity_map" in rd:
                # the right map is refined on its own cost volume: it may receive off-sample disparities when the left does not
                axis_r = machine.right_cv.coords["disp"].data.astype(np.float64)
                on_r = np.isin(rd["disparity_map"].data.astype(np.float64), axis_r)
                if (((rd["validity_mask"].data & INV) == 0) & ~on_r).any():
                    state["offsample_refined_right"] = True

    def after(machine, step, kind):
        if kind in ("filter", "validation"):
            state["pure"] = False
        if kind in ("disparity", "refinement", "filter", "validation") and "disparity_map" in machine.left_disparity:
            d = machine.left_disparity["disparity_map"].data
            m = machine.left_disparity["validity_mask"].data
            valid = (m & INV) == 0
            if state["prev"] is not None and (valid & (state["prev"] != d)).any():
                state["changed"] = True
            state["prev"] = d.copy()
            if kind in ("disparity", "refinement") and state["pure"]:
                bad = valid & ~((d >= lo - 1e-6) & (d <= hi + 1e-6))
                if kind == "refinement" and bad.any() and state.get("off_mask") is not None:
                    # a repeated refinement receives off-sample disparities: the known finding, bounded by half a sample
                    n_ref_ = sum(1 for n_, _c in p["pipeline"] if n_.split(".")[0] == "refinement")
                    half_ = n_ref_ * 0.5 / state["subpix"] + 1e-6
                    known = bad & state["off_mask"] & (d >= lo - half_) & (d <= hi + half_)
                    if known.any():
                        r, c = np.argwhere(known)[0]
                        ctx.violation("C09/refinement-of-off-sample-disparity-leaves-interval",
                                      f"pixel {(int(r), int(c))} d={d[r, c]} interval [{lo[r, c]},{hi[r, c]}] step {step}")
                    bad = bad & ~known
                if bad.any():
                    r, c = np.argwhere(bad)[0]
                    ctx.violation(f"C09/disparity-outside-own-interval-after-{kind}",
                                  f"pixel {(int(r), int(c))} d={d[r, c]} interval [{lo[r, c]},{hi[r, c]}] step {step}")

    machine = None
    if p.get("used"):
        from pandora.state_machine import PandoraMachine

        machine = PandoraMachine()
        wl = ((np.arange(30)[:, None] * 7 + np.arange(36)[None, :] * 13) % 23).astype(np.float32)
        warm = {"matching_cost": {"matching_cost_method": "sad", "window_size": 3}, "disparity": {"disparity_method": "wta"}}
        if p["used"].startswith("pyramid"):
            warm["multiscale"] = {"multiscale_method": "fixed_zoom_pyramid", "num_scales": 2, "scale_factor": int(p["used"][-1])}
        drive.run_pipeline(wl, np.roll(wl, 2, axis=1), warm, (-4, 3), machine=machine)
    res = drive.run_pipeline(pipeline=gen.pipe_dict(p["pipeline"]), disp=disp, right_disp=right_disp,
                             spy=drive.Spy(after=after, before=before), machine=machine, **kw)
    d, m = res.left["disparity_map"].data, res.left["validity_mask"].data
    valid = (m & INV) == 0
    bad = valid & ~((d >= gmin - 1e-6) & (d <= gmax + 1e-6))
    # every refinement step can add up to half a sample to an off-sample disparity (known finding)
    n_ref = sum(1 for n, _ in p["pipeline"] if n.split(".")[0] == "refinement")
    half = n_ref * 0.5 / state["subpix"] + 1e-6
    if bad.any() and state["offsample_refined"] and not (valid & ~((d >= gmin - half) & (d <= gmax + half))).any():
        r, c = np.argwhere(bad)[0]
        ctx.violation("C09/refinement-of-off-sample-disparity-leaves-interval",
                      f"pixel {(int(r), int(c))} d={d[r, c]} interval [{gmin},{gmax}] pipeline={p['pipeline']}")
    elif bad.any():
        r, c = np.argwhere(bad)[0]
        ctx.violation("C09/final-disparity-outside-global-interval", f"pixel {(int(r), int(c))} d={d[r, c]} mask={int(m[r, c])} "
                                                                     f"interval [{gmin},{gmax}] pipeline={p['pipeline']}")
    iv = res.left["disparity_interval"].data
    if float(iv[0]) != gmin or float(iv[1]) != gmax:
        ctx.violation("C09/disparity-interval-not-the-one-searched", f"{iv.tolist()} vs [{gmin},{gmax}]")
    if "disparity_map" in res.right:
        dr, mr = res.right["disparity_map"].data, res.right["validity_mask"].data
        vr = (mr & INV) == 0
        rmin, rmax = (-gmax, -gmin) if rlo is None else (rlo, rhi)
        badr = vr & ~((dr >= rmin - 1e-6) & (dr <= rmax + 1e-6))
        if badr.any() and state.get("offsample_refined_right") and not (vr & ~((dr >= rmin - half) & (dr <= rmax + half))).any():
            r, c = np.argwhere(badr)[0]
            ctx.violation("C09/refinement-of-off-sample-disparity-leaves-interval",
                          f"right pixel {(int(r), int(c))} d={dr[r, c]} interval [{rmin},{rmax}] pipeline={p['pipeline']}")
        elif badr.any():
            r, c = np.argwhere(badr)[0]
            ctx.violation("C09/final-right-disparity-outside-global-interval", f"pixel {(int(r), int(c))} d={dr[r, c]} "
                                                                               f"interval [{rmin},{rmax}] pipeline={p['pipeline']}")
        ivr = res.right["disparity_interval"].data
        if float(ivr[0]) != rmin or float(ivr[1]) != rmax:
            ctx.violation("C09/right-disparity-interval-not-the-one-requested", f"{ivr.tolist()} vs [{rmin},{rmax}]")
    ctx.judged += int(valid.sum())
    classes = ["grid" if "grid" in p else "scalar"]
    if any("interpolated_disparity" in c for _, c in p["pipeline"]):
        classes.append("filling")
    if rlo is not None:
        classes.append("right-image-own-interval")
    if p.get("used"):
        classes.append("machine-served-before:" + p["used"])
    if p["pair"].get("mask_left") and p["pair"]["mask_left"][0][0] == "rect" and p["pair"]["mask_left"][0][1:5] == [0, 0, p["pair"]["H"] - 1, p["pair"]["W"] - 1]:
        classes.append("isolated-usable-pixels")
    ctx.case(p, nontrivial=bool(state["changed"]), classes=classes)


CHECKS = [
    Check("nested", nested_body, strategy=nested_cases, budget={"quick": (6, 30), "thorough": (16, 500)}),
    Check("grids", grids_body, strategy=grids_cases, budget={"quick": (5, 30), "thorough": (16, 500)}),
    Check("range", range_body, strategy=range_cases, budget={"quick": (6, 40), "thorough": (16, 500)}),
]
