"""C20 — reported margins are a pure, monotone function of the checked pipeline.

(exhaustive) every legal sequence of step kinds up to length 5 x a parameter grid is checked on a fresh machine and
`machine.margins.to_dict()` compared with a restatement of the documented values; (generated) Hypothesis pipelines
with wider parameter ranges, suffixes and image shapes, plus monotonicity under step insertion and independence from
the right/left round; (filters) filter classes built directly with step in {1,2,3}."""
from __future__ import annotations

import copy
import itertools

import numpy as np
from hypothesis import strategies as st

from .. import build, drive, stubs
from ..core import Check, Ctx
from ..ref import automaton as dfa

ID = "C20"
RULE = (
    "exhaustive: all DFA-legal kind sequences of length 1..5 (quick) / 1..6 (thorough) x {window 1,3,5,11} x {median 3, median 9, bilateral 0.5, "
    "bilateral 6.0} on a 20x30 image; generated: legal pipelines with suffixes, windows 1-11, filter sizes 1-9, "
    "sigma_space 0.3-20, image shapes from 8x8 to 200x300, one extra inserted step for monotonicity; filters: direct "
    "construction with step 1-3; saved: pandora.main on small GeoTIFF pairs with runnable pipelines, the input file carrying "
    "no / another pipeline's / a junk 'margins' section, cfg/config.json read back. Non-trivial = the pipeline has >= 1 cumulative and >= 1 non-cumulative entry; class "
    "'non-cumulative-dominates' = a non-cumulative margin larger than the cumulative sum. distinct = distinct payload."
)
ASSUMPTIONS = [
    "optimisation is exercised through the harness identity stub, which inherits the documented 40-pixel margin of "
    "AbstractOptimization",
    "the clause 'equals margins in the saved configuration' is decided by the 'saved' check here and again in C19's flow",
]

SIDES = ("left", "up", "right", "down")


def expected_margins(steps, shape):
    """steps: [[name, cfg], ...] -> dict in the shape of GlobalMargins.to_dict()"""
    cum, non = {}, {}
    # the matching-cost `step` (column stride, only accepted when pandora2d drives Pandora) scales the filter margins
    mstep = next((c.get("step", 1) for n, c in steps if dfa.kind_of(n) == "matching_cost"), 1)
    for name, cfg in steps:
        k = dfa.kind_of(name)
        if k == "matching_cost":
            v = (cfg.get("window_size", 5) - 1) // 2
            cum[name] = (v,) * 4
        elif k == "optimization":
            cum[name] = (40,) * 4
        elif k == "refinement" and cfg.get("refinement_method") == "verif_asym":
            cum[name] = tuple(stubs.ASYM_MARGINS)  # a plugin whose margins differ per side
        elif k in ("aggregation", "disparity", "refinement"):
            cum[name] = (0,) * 4
        elif k == "filter":
            m = cfg["filter_method"]
            if m in ("median", "median_for_intervals"):
                non[name] = (cfg.get("filter_size", 3) * mstep,) * 4
            else:
                non[name] = (min(shape[0], shape[1], int(3 * cfg.get("sigma_space", 6.0) + 1)) * mstep,) * 4
    tot = [sum(v[i] for v in cum.values()) for i in range(4)]
    glob = [max([tot[i]] + [v[i] for v in non.values()]) for i in range(4)]
    d = lambda v: dict(zip(SIDES, v))  # noqa: E731
    return {"cumulative margins": {n: d(v) for n, v in cum.items()},
            "non-cumulative margins": {n: d(v) for n, v in non.items()},
            "global margins": d(glob)}, bool(cum) and bool(non), bool(non) and max(v[0] for v in non.values()) > tot[0]


def check_margins(steps, shape):
    from pandora.state_machine import PandoraMachine

    stubs.install()
    img = np.zeros(shape, dtype=np.float32)
    l, r = drive.make_inputs(img, img, (-2, 2))
    if any("geometric_prior" in c for _, c in steps):
        # the optional rasters an optimisation's geometric prior may point at (both images carry them: with a
        # validation step the right image is the reference of the second round)
        for ds in (l, r):
            ds.coords["band_classif"] = ["veg", "water"]
            ds["classif"] = (["band_classif", "row", "col"], np.zeros((2,) + tuple(shape), dtype=np.int16))
            ds["segm"] = (["row", "col"], np.zeros(tuple(shape), dtype=np.int16))
    machine = PandoraMachine()
    # a matching-cost step other than 1 is only accepted when the pandora2d package is loaded: stand in for it
    import sys
    import types

    fake = any(c.get("step", 1) != 1 for _, c in steps) and "pandora2d" not in sys.modules
    if fake:
        sys.modules["pandora2d"] = types.ModuleType("pandora2d")
    try:
        drive.check_pipeline(machine, {n: copy.deepcopy(c) for n, c in steps}, l, r)
    finally:
        if fake:
            del sys.modules["pandora2d"]
    return machine.margins.to_dict(), machine


def judge(ctx: Ctx, steps, shape, tag):
    got, machine = check_margins(steps, shape)
    exp, mixed, dom = expected_margins(steps, shape)
    for part in ("cumulative margins", "non-cumulative margins"):
        if list(got[part]) != list(exp[part]):
            ctx.violation("C20/margin-bearing-steps-wrong", f"{part}: {list(got[part])} expected {list(exp[part])} {tag}")
            return got, mixed, dom
        for n in exp[part]:
            if got[part][n] != exp[part][n]:
                ctx.violation("C20/step-margin-value-wrong", f"{part}[{n}] = {got[part][n]} expected {exp[part][n]} {tag}")
    if got["global margins"] != exp["global margins"]:
        ctx.violation("C20/global-margins-wrong", f"{got['global margins']} expected {exp['global margins']} {tag}")
    if any(v < 0 for v in got["global margins"].values()):
        ctx.violation("C20/negative-margin", f"{got['global margins']} {tag}")
    gm = machine.margins.global_margins
    if gm.asdict() != got["global margins"]:
        ctx.violation("C20/global-margins-inconsistent", tag)
    ctx.judged += 1
    return got, mixed, dom


GRID_W = [1, 3, 5, 11]
GRID_F = [{"filter_method": "median", "filter_size": 3}, {"filter_method": "median", "filter_size": 9},
          {"filter_method": "bilateral", "sigma_space": 0.5}, {"filter_method": "bilateral", "sigma_space": 6.0}]


def enumerate_cases(tier, shard, nshards):
    n = 0
    maxlen = 5 if tier == "quick" else 6
    for length in range(1, maxlen + 1):
        for kinds in itertools.product(dfa.KINDS, repeat=length):
            if not dfa.accepts(kinds):
                continue
            for wi in range(len(GRID_W)):
                for fi in (range(len(GRID_F)) if "filter" in kinds else [0]):
                    if n % nshards == shard:
                        yield {"kinds": list(kinds), "w": wi, "f": fi}
                    n += 1


def build_steps(kinds, w, fcfg):
    steps, seen = [], {}
    for k in kinds:
        c = seen.get(k, 0)
        seen[k] = c + 1
        name = k if c == 0 else f"{k}.{c}"
        cfg = copy.deepcopy(dfa.DEFAULT_CFG[k])
        if k == "matching_cost":
            cfg["window_size"] = w
        if k == "filter":
            cfg = copy.deepcopy(fcfg)
        steps.append([name, cfg])
    return steps


def exhaustive_body(ctx: Ctx, p: dict) -> None:
    steps = build_steps(p["kinds"], GRID_W[p["w"]], GRID_F[p["f"]])
    _, mixed, dom = judge(ctx, steps, (20, 30), f"steps={steps}")
    ctx.case(p, nontrivial=mixed, classes=(["non-cumulative-dominates"] if dom else []) + [f"len{len(p['kinds'])}"])


@st.composite
def gen_cases(draw):
    shape = draw(st.sampled_from([[8, 8], [12, 40], [20, 30], [64, 9], [200, 300]]))
    meas = draw(st.sampled_from(["sad", "ssd", "zncc", "census"]))
    w = draw(st.sampled_from([3, 5])) if meas == "census" else draw(st.sampled_from([1, 3, 5, 7, 9, 11]))
    w = min(w, min(shape) if min(shape) % 2 else min(shape) - 1)
    steps = [["matching_cost" + draw(st.sampled_from(["", "", ".m"])), {"matching_cost_method": meas, "window_size": w}]]
    if draw(st.integers(0, 3)) == 0:
        steps[0][1]["step"] = draw(st.sampled_from([2, 3]))
    if draw(st.booleans()):
        steps[0][1].pop("window_size")
        if meas == "census" or min(shape) >= 5:
            pass
        else:
            steps[0][1]["window_size"] = w
    pool_cv = [("aggregation", {"aggregation_method": "cbca"}), ("optimization", {"optimization_method": "verif_identity"}),
               ("cost_volume_confidence", {"confidence_method": "ambiguity"}),
               ("semantic_segmentation", {"segmentation_method": "verif_identity", "RGB_bands": {}})]
    cnt = {}

    def nm(k):
        c = cnt.get(k, 0)
        cnt[k] = c + 1
        return k if c == 0 and draw(st.booleans()) else f"{k}.x{c}"

    for _ in range(draw(st.integers(0, 3))):
        k, cfg = draw(st.sampled_from(pool_cv))
        steps.append([nm(k), copy.deepcopy(cfg)])
    steps.append([nm("disparity"), {"disparity_method": "wta"}])

    def post_step():
        k = draw(st.sampled_from(["filter", "filter", "refinement", "validation"]))
        if k == "filter":
            m = draw(st.sampled_from(["median", "bilateral", "median_for_intervals"]))
            if m == "bilateral":
                cfg = {"filter_method": m}
                if draw(st.booleans()):
                    cfg["sigma_space"] = draw(st.sampled_from([0.3, 0.5, 1.0, 2.0, 6.0, 20.0]))
            else:
                cfg = {"filter_method": m}
                if draw(st.booleans()):
                    cfg["filter_size"] = draw(st.sampled_from([1, 3, 5, 7, 9]))
                if m == "median_for_intervals" and draw(st.booleans()):
                    cfg["regularization"] = draw(st.booleans())
                    cfg["vertical_depth"] = draw(st.sampled_from([0, 1, 3]))
            return [nm(k), cfg]
        if k == "refinement":
            return [nm(k), {"refinement_method": draw(st.sampled_from(["vfit", "quadratic", "verif_asym"]))}]
        return [nm(k), {"validation_method": "cross_checking_accurate"}]

    for _ in range(draw(st.integers(0, 4))):
        steps.append(post_step())
    extra = post_step() if draw(st.booleans()) else [nm(draw(st.sampled_from(["aggregation", "optimization"]))), None]
    if extra[1] is None:
        extra[1] = copy.deepcopy(dict(pool_cv)[dfa.kind_of(extra[0])])
    if any(dfa.kind_of(n) == "optimization" for n, _ in steps + [extra]):
        steps[0][1].pop("step", None)  # the optimisation step only works with step 1 (documented refusal)
    for n, c in steps + [extra]:
        if dfa.kind_of(n) == "optimization":
            # whatever geometric prior the optimisation is given, its margin is the documented cumulative 40
            prior = draw(st.sampled_from([None, None, {"source": "internal"}, {"source": "classif", "classes": ["veg"]},
                                          {"source": "classif", "classes": ["water", "veg"]}, {"source": "segm"}]))
            if prior is not None:
                c["geometric_prior"] = copy.deepcopy(prior)
    return {"shape": shape, "steps": steps, "extra": extra, "pos": draw(st.integers(0, 20))}


def gen_body(ctx: Ctx, p: dict) -> None:
    shape = tuple(p["shape"])
    steps = p["steps"]
    if "window_size" not in steps[0][1] and min(shape) < 5:
        steps[0][1]["window_size"] = 3
    got, mixed, dom = judge(ctx, steps, shape, f"shape={shape} steps={steps}")
    # independent of the second (right/left) round: drop the validation steps
    noval = [s for s in steps if dfa.kind_of(s[0]) != "validation"]
    if len(noval) != len(steps):
        g2, _ = check_margins(noval, shape)
        if g2 != got:
            ctx.violation("C20/margins-depend-on-validation-round", f"{got} vs {g2} steps={steps}")
    # monotone under insertion of one more legal step
    ek = dfa.kind_of(p["extra"][0])
    kinds = [dfa.kind_of(n) for n, _ in steps]
    idx_disp = kinds.index("disparity")
    pos = (1 + p["pos"] % idx_disp) if ek in ("aggregation", "optimization") else (idx_disp + 1 + p["pos"] % (len(steps) - idx_disp))
    bigger = steps[:pos] + [p["extra"]] + steps[pos:]
    g3, _ = check_margins(bigger, shape)
    for s in SIDES:
        if g3["global margins"][s] < got["global margins"][s]:
            ctx.violation("C20/margins-decrease-when-step-added", f"{got['global margins']} -> {g3['global margins']} adding {p['extra']}")
    ctx.case(p, nontrivial=mixed, classes=(["non-cumulative-dominates"] if dom else []) +
             (["validation"] if len(noval) != len(steps) else []) + (["matching-cost-step>1"] if steps[0][1].get("step", 1) > 1 else []) +
             (["plugin-with-unequal-sides"] if any(c.get("refinement_method") == "verif_asym" for _, c in steps) else []) +
             (["optimisation-with-classif-or-segm-prior"] if any(c.get("geometric_prior", {}).get("source") in ("classif", "segm")
                                                                for _, c in steps) else []))


@st.composite
def filter_cases(draw):
    m = draw(st.sampled_from(["median", "bilateral", "median_for_intervals"]))
    cfg = {"filter_method": m}
    if m == "bilateral":
        if draw(st.booleans()):
            cfg["sigma_space"] = draw(st.floats(0.3, 30.0).map(lambda x: round(x, 2)))
    elif draw(st.booleans()):
        cfg["filter_size"] = draw(st.sampled_from([1, 3, 5, 7, 9, 11]))
    if m == "median_for_intervals" and draw(st.booleans()):
        # the other parameters of the interval filter have no bearing on its margins
        cfg["regularization"] = draw(st.booleans())
        cfg["vertical_depth"] = draw(st.sampled_from([0, 1, 2, 4]))
        cfg["ambiguity_kernel_size"] = draw(st.sampled_from([1, 3, 5]))
    return {"cfg": cfg, "shape": [draw(st.integers(1, 300)), draw(st.integers(1, 300))], "step": draw(st.integers(1, 3))}


def filter_body(ctx: Ctx, p: dict) -> None:
    from pandora import filter as pfilter

    cfg, shape, step = copy.deepcopy(p["cfg"]), tuple(p["shape"]), p["step"]
    f = pfilter.AbstractFilter(cfg=cfg, image_shape=shape, step=step)
    if p["cfg"]["filter_method"] == "bilateral":
        v = min(shape[0], shape[1], int(3 * p["cfg"].get("sigma_space", 6.0) + 1)) * step
    else:
        v = p["cfg"].get("filter_size", 3) * step
    got = f.margins.astuple()
    if got != (v, v, v, v):
        ctx.violation("C20/filter-margin-wrong", f"{p}: {got} expected {v}")
    ctx.judged += 1
    ctx.case(p, nontrivial=step > 1, classes=[p["cfg"]["filter_method"]])


# ---------------------------------------------------------------------------------------------------------------
# "... and are what the command-line run stores under 'margins' in the saved configuration"
# ---------------------------------------------------------------------------------------------------------------
@st.composite
def saved_cases(draw):
    meas = draw(st.sampled_from(["sad", "ssd", "zncc", "census"]))
    w = draw(st.sampled_from([3, 5])) if meas == "census" else draw(st.sampled_from([1, 3, 5, 7]))
    steps = [["matching_cost", {"matching_cost_method": meas, "window_size": w}]]
    if draw(st.integers(0, 3)) == 0:
        steps.append(["aggregation", {"aggregation_method": "cbca"}])
    steps.append(["disparity", {"disparity_method": "wta"}])
    nf = 0
    for _ in range(draw(st.integers(0, 3))):
        k = draw(st.sampled_from(["median", "bilateral", "refinement"]))
        if k == "refinement":
            if not any(n.startswith("refinement") for n, _ in steps):
                steps.append(["refinement", {"refinement_method": "vfit"}])
            continue
        name = "filter" if nf == 0 else f"filter.{nf}"
        nf += 1
        steps.append([name, {"filter_method": "median", "filter_size": draw(st.sampled_from([3, 5, 7]))} if k == "median" else
                      {"filter_method": "bilateral", "sigma_space": draw(st.sampled_from([0.5, 1.0, 2.0]))}])
    if draw(st.booleans()):
        steps.append(["validation", {"validation_method": "cross_checking_accurate"}])
    # the input file may be a configuration saved by an earlier run and edited since: its 'margins' section is stale
    stale = draw(st.sampled_from([None, "other-pipeline", "junk"]))
    return {"steps": steps, "stale": stale, "shape": draw(st.sampled_from([[14, 18], [20, 16]])),
            "stale_w": draw(st.sampled_from([1, 9, 11])), "stale_f": draw(st.sampled_from([3, 9]))}


def saved_body(ctx: Ctx, p: dict) -> None:
    import json
    import os

    import pandora

    from .. import files

    steps, shape = p["steps"], tuple(p["shape"])
    exp, mixed, dom = expected_margins(steps, shape)
    with files.scratch_dir("c20") as d:
        img = (np.arange(shape[0] * shape[1]).reshape(shape) * 7 % 23).astype(np.float32)
        left = files.write_tiff(os.path.join(d, "left.tif"), img)
        right = files.write_tiff(os.path.join(d, "right.tif"), np.roll(img, 1, axis=1))
        user = {"input": {"left": {"img": left, "disp": [-2, 2]}, "right": {"img": right}},
                "pipeline": {n: copy.deepcopy(c) for n, c in steps}}
        if p["stale"] == "other-pipeline":
            other = [["matching_cost", {"matching_cost_method": "sad", "window_size": p["stale_w"]}], ["disparity", {}],
                     ["filter", {"filter_method": "median", "filter_size": p["stale_f"]}]]
            user = {"margins": expected_margins(other, shape)[0], **user}
        elif p["stale"] == "junk":
            user["margins"] = {"global margins": {"left": 99, "up": 99, "right": 99, "down": 99}}
        cfg_path = os.path.join(d, "user.json")
        with open(cfg_path, "w") as f:
            json.dump(user, f)
        out = os.path.join(d, "out")
        pandora.main(cfg_path, out, False)
        with open(os.path.join(out, "cfg", "config.json")) as f:
            saved = json.load(f)
    got = saved.get("margins")
    if got != exp:
        ctx.violation("C20/saved-margins-wrong", f"config.json holds {got}, the pipeline's margins are {exp} (input file margins "
                                                 f"section: {p['stale']}) steps={steps}")
    ctx.judged += 1
    ctx.case(p, nontrivial=bool(mixed), classes=[f"input-margins-section={p['stale']}"] + (["non-cumulative-dominates"] if dom else []))


CHECKS = [
    Check("exhaustive", exhaustive_body, enumerate=enumerate_cases, exhaustive=True, budget={"quick": (8, 0), "thorough": (16, 0)}),
    Check("generated", gen_body, strategy=gen_cases, budget={"quick": (6, 120), "thorough": (16, 4000)}),
    Check("filters", filter_body, strategy=filter_cases, budget={"quick": (2, 300), "thorough": (4, 5000)}),
    Check("saved", saved_body, strategy=saved_cases, budget={"quick": (4, 8), "thorough": (8, 100)}),
]
