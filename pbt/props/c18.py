"""C18 — runs are reproducible and side-effect free whatever the threading.

(history) a Hypothesis rule-based state machine owns a pool of machine objects (one pipeline each) and interleaves
check / run calls on them; invariant: every observation of (pipeline, inputs) hashes to the same SHA-256 over all
product variables, coordinates and attributes, and the caller's datasets are deep-equal before and after every run;
(environments) the same generated cases are executed in fresh sub-processes under different numbers of numba threads,
threading layers, parallel chunk sizes and with numba parallelisation switched off; products must be bit-identical
(with parallel off: the disparity map and the pre-validation flags)."""
from __future__ import annotations

import copy
import hashlib
import json
import os
import subprocess
import sys

import numpy as np

from .. import build, drive, env, gen
from ..core import Check, Ctx, HarnessError, Violation, digest, dumps

ID = "C18"
RULE = (
    "orders (exhaustive): each of the 8 pipelines as the first thing a process runs, followed by all the others on their "
    "own machine objects (rotated: every ordered pair 'i before j' occurs), then the first one again, every run compared "
    "with the hash a pristine single-purpose process computes. history: Hypothesis RuleBasedStateMachine, pool of <= 3 machine objects over 8 pipelines covering every prange "
    "kernel (refinement, ambiguity, risk, interval_bounds with regularisation, median_for_intervals) and every step "
    "class incl. multiscale, 2 generated input pairs >= 32x40 with masks, rules new_machine / check / run in any "
    "interleaving; non-trivial = a history with >= 2 runs of one pipeline separated by an operation on another machine. "
    "environments: generated (pipeline, inputs) cases run in fresh sub-processes under NUMBA_NUM_THREADS x threading "
    "layer x chunk size x parallel on/off, each repeated; non-trivial = a case observed under >= 4 environments. "
    "distinct = distinct history / (case, environment) pair."
)
ASSUMPTIONS = [
    "the harness cannot own numba's scheduler: a race confined to a rare prange interleaving can survive the thread-count "
    "/ layer / chunk-size / repetition sweep (stated limitation of this family for this property)",
    "with PANDORA_NUMBA_PARALLEL=False only the disparity map and the pre-validation flags are compared, as the property says",
]

PIPELINES = [
    [["matching_cost", {"matching_cost_method": "zncc", "window_size": 3, "subpix": 2}],
     ["cost_volume_confidence.a", {"confidence_method": "ambiguity"}],
     ["cost_volume_confidence.r", {"confidence_method": "risk"}],
     ["cost_volume_confidence.i", {"confidence_method": "interval_bounds", "regularization": True, "ambiguity_indicator": "a"}],
     ["disparity", {"disparity_method": "wta"}],
     ["refinement", {"refinement_method": "vfit"}],
     ["filter", {"filter_method": "median"}],
     ["filter.m", {"filter_method": "median_for_intervals", "regularization": True, "interval_indicator": "i", "ambiguity_indicator": "a"}],
     ["validation", {"validation_method": "cross_checking_accurate", "interpolated_disparity": "mc-cnn"}],
     ["filter.b", {"filter_method": "bilateral", "sigma_space": 1.0}]],
    [["matching_cost", {"matching_cost_method": "census", "window_size": 5}],
     ["aggregation", {"aggregation_method": "cbca", "cbca_distance": 3}],
     ["disparity", {"disparity_method": "wta", "invalid_disparity": "NaN"}],
     ["refinement", {"refinement_method": "quadratic"}],
     ["validation", {"validation_method": "cross_checking_accurate", "interpolated_disparity": "sgm"}],
     ["filter", {"filter_method": "median", "filter_size": 5}]],
    [["matching_cost", {"matching_cost_method": "sad", "window_size": 1, "subpix": 4}],
     ["cost_volume_confidence", {"confidence_method": "std_intensity"}],
     ["disparity", {"disparity_method": "wta"}],
     ["filter", {"filter_method": "bilateral", "sigma_space": 0.7, "sigma_color": 1.0}]],
    [["matching_cost", {"matching_cost_method": "ssd", "window_size": 3}],
     ["disparity", {"disparity_method": "wta"}],
     ["refinement", {"refinement_method": "vfit"}],
     ["refinement.2", {"refinement_method": "quadratic"}],
     ["validation", {"validation_method": "cross_checking_accurate"}],
     ["validation.2", {"validation_method": "cross_checking_accurate", "interpolated_disparity": "mc-cnn"}]],
    [["matching_cost", {"matching_cost_method": "sad", "window_size": 3}],
     ["cost_volume_confidence.amb", {"confidence_method": "ambiguity"}],
     ["disparity", {"disparity_method": "wta"}],
     ["filter", {"filter_method": "median"}],
     ["multiscale", {"multiscale_method": "fixed_zoom_pyramid", "num_scales": 2}],
     ["validation", {"validation_method": "cross_checking_accurate"}]],
    [["matching_cost", {"matching_cost_method": "sad", "window_size": 3}],
     ["disparity", {"disparity_method": "wta"}],
     ["filter", {"filter_method": "median"}],
     ["refinement", {"refinement_method": "vfit"}],
     ["validation", {"validation_method": "cross_checking_accurate", "interpolated_disparity": "sgm"}],
     ["refinement.2", {"refinement_method": "quadratic"}]],
    [["matching_cost", {"matching_cost_method": "census", "window_size": 3, "subpix": 2}],
     ["disparity", {"disparity_method": "wta", "invalid_disparity": "NaN"}],
     ["filter", {"filter_method": "bilateral", "sigma_space": 0.9}],
     ["refinement", {"refinement_method": "quadratic"}]],
    [["matching_cost", {"matching_cost_method": "zncc", "window_size": 5}],
     ["cost_volume_confidence.x", {"confidence_method": "ambiguity", "normalization": False}],
     ["aggregation", {"aggregation_method": "cbca"}],
     ["cost_volume_confidence.y", {"confidence_method": "risk", "eta_step": 0.05}],
     ["disparity", {"disparity_method": "wta"}],
     ["refinement", {"refinement_method": "quadratic"}]],
]


_D = ["disparity", {"disparity_method": "wta"}]
# (name, pipeline, verdict of a pristine process): parameter domains differ from one step class to the next
PROBES = [
    ("census window 7", dict([["matching_cost", {"matching_cost_method": "census", "window_size": 7}], _D]), False),
    ("census window 1", dict([["matching_cost", {"matching_cost_method": "census", "window_size": 1}], _D]), False),
    ("census window 5", dict([["matching_cost", {"matching_cost_method": "census", "window_size": 5}], _D]), True),
    ("sad window 4", dict([["matching_cost", {"matching_cost_method": "sad", "window_size": 4}], _D]), False),
    ("zncc window 7", dict([["matching_cost", {"matching_cost_method": "zncc", "window_size": 7}], _D]), True),
    ("ssd subpix 3", dict([["matching_cost", {"matching_cost_method": "ssd", "window_size": 3, "subpix": 3}], _D]), False),
    ("median filter_size 4", dict([["matching_cost", {"matching_cost_method": "sad", "window_size": 3}], _D,
                                   ["filter", {"filter_method": "median", "filter_size": 4}]]), False),
    ("median_for_intervals filter_size 5", dict([["matching_cost", {"matching_cost_method": "sad", "window_size": 3}],
                                                 ["cost_volume_confidence", {"confidence_method": "interval_bounds"}], _D,
                                                 ["filter", {"filter_method": "median_for_intervals", "filter_size": 5}]]), True),
    ("bilateral sigma_space 0", dict([["matching_cost", {"matching_cost_method": "sad", "window_size": 3}], _D,
                                      ["filter", {"filter_method": "bilateral", "sigma_space": 0.0}]]), False),
]


def make_pair(seedval: int):
    rng = np.random.RandomState(seedval)
    H, W = 32 + seedval % 5, 40 + seedval % 7
    if seedval % 3 == 2 and seedval > 10:  # a third of the environment cases: larger images, more parallel work
        H, W = 3 * H, 3 * W
    left = rng.randint(0, 30, (H, W)).astype(np.float32)
    right = np.roll(left, 1 + seedval % 3, axis=1)
    right[rng.rand(H, W) < 0.1] = rng.randint(0, 30)
    ml = np.zeros((H, W), dtype=np.int16)
    ml[rng.rand(H, W) < 0.03] = 1
    ml[rng.rand(H, W) < 0.03] = 2
    mr = np.zeros((H, W), dtype=np.int16)
    mr[rng.rand(H, W) < 0.03] = 2
    if seedval % 2:
        mr = None
    return left, right, ml, mr


PAIR_VERSION = 4  # part of the pristine cache key: bump whenever the pairs built from a seed change


def make_datasets(seedval: int, pipe_idx=None):
    """the caller's two image datasets for a pair seed.  Seeds 1003 (NaN) and 1015 (inf) use a non-finite no-data convention, as a
    caller building datasets by hand may: the no-data pixels of the mask hold NaN (or inf) and `no_data_img` says so."""
    left, right, ml, mr = make_pair(seedval)
    l, r = drive.make_inputs(left, right, (-3, 2), ml, mr)
    if seedval == 1021 and pipe_idx is not None and not any(n.split(".")[0] in ("validation", "multiscale") for n, _ in PIPELINES[pipe_idx]):
        # per-pixel interval grids in which some pixels have no range of their own (NaN): the caller's grids stay as they are
        H, W = left.shape
        holes = (np.arange(H)[:, None] * 5 + np.arange(W)[None, :] * 3) % 11 == 0
        gmin = np.where(holes, np.nan, -3.0 + (np.arange(W)[None, :] % 2)).astype(np.float32) * np.ones((H, 1), np.float32)
        gmax = np.where(holes, np.nan, 2.0).astype(np.float32)
        l, r = drive.make_inputs(left, right, (gmin, gmax), ml, mr)
    if seedval >= 1000 and seedval % 4 == 3:
        nd = np.nan if seedval % 8 == 3 else np.inf
        # sad / ssd derive their maximal cost from the raw samples and need them finite (observed precondition:
        # int(nan) in compute_cost_volume): there only the attribute announces the convention
        meas = PIPELINES[pipe_idx][0][1]["matching_cost_method"] if pipe_idx is not None else None
        if meas in ("census", "zncc"):
            l["im"].data[ml == 1] = nd
        l.attrs["no_data_img"] = nd
        r.attrs["no_data_img"] = nd
    return l, r


def product_hash(*datasets, only=None) -> str:
    h = hashlib.sha256()
    for ds in datasets:
        snap = build.snapshot(ds)
        if snap.get("__none__"):
            h.update(b"none")
            continue
        for k in sorted(snap["vars"]):
            if only and k not in only:
                continue
            dims, arr = snap["vars"][k]
            h.update(k.encode() + str(dims).encode() + str(arr.dtype).encode() + str(arr.shape).encode())
            h.update(np.ascontiguousarray(arr).tobytes())
        if only:
            continue
        for k in sorted(snap["coords"]):
            h.update(k.encode() + str(snap["coords"][k].tolist()).encode())
        for k in sorted(snap["attrs"]):
            v = snap["attrs"][k]
            h.update(k.encode() + (str(np.asarray(v).tolist()) if isinstance(v, np.ndarray) else repr(v)).encode())
    return h.hexdigest()


def run_case(pipe_idx: int, pair_seed: int, machine=None, do_check=True, checked=None):
    """-> (hash of all products, hash of disparity + pre-validation flags, input diff, checked cfg)"""
    from pandora.state_machine import PandoraMachine

    l, r = make_datasets(pair_seed, pipe_idx)
    lb, rb = build.snapshot(l), build.snapshot(r)
    m = machine or PandoraMachine()
    pipe = gen.pipe_dict(PIPELINES[pipe_idx])
    if do_check or checked is None:
        checked = drive.check_pipeline(m, pipe, l, r)
    pre = {}

    def before(machine_, step, kind):
        if kind == "validation" and "m" not in pre:
            pre["m"] = machine_.left_disparity["validity_mask"].data.copy()

    with drive.Spy(before=before):
        # the caller keeps ONE checked configuration and hands the same object to every run
        lo, ro = drive.run_checked(m, l, r, checked)
    full = product_hash(lo, ro)
    flags = pre.get("m", lo["validity_mask"].data)
    hd = hashlib.sha256(np.ascontiguousarray(lo["disparity_map"].data).tobytes()).hexdigest()
    hf = hashlib.sha256(np.ascontiguousarray(flags).tobytes()).hexdigest()
    hf11 = hashlib.sha256(np.ascontiguousarray(flags & ~np.uint16(2048)).tobytes()).hexdigest()
    reduced = [hd, hf, hf11]
    diff = build.snapshot_diff(lb, build.snapshot(l)) + build.snapshot_diff(rb, build.snapshot(r))
    return full, reduced, diff, checked


# ---------------------------------------------------------------------------------------------------------------
# pristine reference: the hash a fresh single-purpose process computes for one (pipeline, pair)
# ---------------------------------------------------------------------------------------------------------------
def pristine_hash(pidx: int, pseed: int) -> str:
    root = os.path.join(env.VERIF_DIR, ".work", "c18ref", env.tree_hash() + "-" + os.environ.get("PANDORA_NUMBA_PARALLEL", "True"))
    os.makedirs(root, exist_ok=True)
    path = os.path.join(root, f"{pidx}-{pseed}-{digest(PIPELINES[pidx])[:10]}-v{PAIR_VERSION}.json")
    if not os.path.exists(path):
        cases = path + f".{os.getpid()}.cases"
        out = path + f".{os.getpid()}.out"
        with open(cases, "w") as f:
            json.dump([[pidx, pseed]], f)
        e = dict(os.environ)
        e["NUMBA_CACHE_DIR"] = env.cache_dir(e.get("PANDORA_NUMBA_PARALLEL", "True"))
        r = subprocess.run([sys.executable, "-m", "pbt.props.c18", "child", cases, out, "0", "1"], env=e, cwd=env.VERIF_DIR,
                           capture_output=True, text=True)
        if not os.path.exists(out):
            raise HarnessError(f"pristine child failed: {r.stdout[-800:]}{r.stderr[-800:]}")
        os.replace(out, path)
        os.remove(cases)
    with open(path) as f:
        return json.load(f)["results"][0][0][0]


# ---------------------------------------------------------------------------------------------------------------
# (a) histories
# ---------------------------------------------------------------------------------------------------------------
def replay_history(ctx: Ctx, p: dict) -> None:
    """payload: {"ops": [[op, machine slot, pipeline idx, pair seed], ...]}"""
    from pandora.state_machine import PandoraMachine

    slots = {}
    seen = {}
    runs = []
    for op, slot, pidx, pseed in p["ops"]:
        if op == "new":
            slots[slot] = {"machine": PandoraMachine(), "pipe": pidx, "checked": None}
            continue
        if slot not in slots:
            continue
        s = slots[slot]
        if op == "check":
            l, r = make_datasets(pseed, s["pipe"])
            s["checked"] = drive.check_pipeline(s["machine"], gen.pipe_dict(PIPELINES[s["pipe"]]), l, r)
        elif op == "run":
            if s["checked"] is None:
                continue
            full, _, diff, _ = run_case(s["pipe"], pseed, machine=s["machine"], do_check=False, checked=s["checked"])
            if diff:
                ctx.violation("C18/caller-datasets-modified", f"pipeline {s['pipe']} pair {pseed}: {diff}")
            key = (s["pipe"], pseed)
            if key not in seen and full != pristine_hash(s["pipe"], pseed):
                ctx.violation("C18/products-differ-from-pristine-process",
                              f"pipeline {s['pipe']} pair {pseed}: first observation in this process differs from a fresh "
                              f"single-purpose process (history {p['ops']})")
            if key in seen and seen[key] != full:
                ctx.violation("C18/products-differ-between-runs", f"pipeline {s['pipe']} pair {pseed} after history {p['ops']}")
            seen.setdefault(key, full)
            runs.append((slot, key))
    # ---- whatever was checked or run before in this process, a fresh machine gives the verdicts a pristine process gives
    l0, r0 = drive.make_inputs(*make_pair(0)[:2], (-3, 2), *make_pair(0)[2:])
    for name, pipe_, expect in PROBES:
        try:
            drive.check_pipeline(PandoraMachine(), copy.deepcopy(pipe_), l0, r0)
            accepted = True
        except Exception:  # noqa: BLE001
            accepted = False
        if accepted != expect:
            ctx.violation("C18/check-verdict-depends-on-history", f"{name}: {'accepted' if accepted else 'refused'} after history "
                                                                  f"{p['ops']}, a pristine process {'accepts' if expect else 'refuses'} it")
    # non-trivial: two runs of one (pipeline, pair) separated by an operation on another machine
    nt = False
    ops = [o for o in p["ops"] if o[0] != "new"]
    for i, a in enumerate(ops):
        for j in range(i + 2, len(ops)):
            b = ops[j]
            if a[0] == b[0] == "run" and a[1] == b[1] and a[3] == b[3] and any(o[1] != a[1] for o in ops[i + 1:j]):
                nt = True
    ctx.judged += len(runs)
    ctx.case(p, nontrivial=nt, classes=[f"runs={min(len(runs), 5)}"] +
             (["non-finite-no-data-convention"] if any(o[0] == "run" and o[3] in (1003, 1015) for o in p["ops"]) else []) +
             (["interval-grids-with-holes"] if any(o[0] == "run" and o[3] == 1021 for o in p["ops"]) else []))


def history_runner(ctx: Ctx, tier, seed_val, shard, nshards, n):
    import hypothesis
    from hypothesis import HealthCheck, Phase, settings, strategies as st
    from hypothesis.stateful import RuleBasedStateMachine, initialize, precondition, rule, run_state_machine_as_test

    state = {"best": None}

    class History(RuleBasedStateMachine):
        def __init__(self):
            super().__init__()
            self.ops = []
            self.sub = Ctx(prop=ctx.prop, check=ctx.check, tier=ctx.tier, known=ctx.known)

        @initialize(p=st.integers(0, len(PIPELINES) - 1), q=st.integers(0, len(PIPELINES) - 1), pair=st.sampled_from([0, 5, 1003, 1015, 1021]))
        def first(self, p, q, pair):
            self.ops += [["new", 0, p, 0], ["check", 0, 0, pair], ["new", 1, q, 0], ["check", 1, 0, pair], ["run", 0, 0, pair]]
            self.live = {0, 1}
            self.checked = {0, 1}

        @rule(slot=st.integers(0, 2), p=st.integers(0, len(PIPELINES) - 1))
        def new_machine(self, slot, p):
            self.ops.append(["new", slot, p, 0])
            self.live.add(slot)
            self.checked.discard(slot)

        @rule(k=st.integers(0, 5), pair=st.sampled_from([0, 5, 1003, 1015, 1021]))
        def check(self, k, pair):
            slot = sorted(self.live)[k % len(self.live)]
            self.ops.append(["check", slot, 0, pair])
            self.checked.add(slot)

        @rule(k=st.integers(0, 5), pair=st.sampled_from([0, 5, 1003, 1015, 1021]))
        def run(self, k, pair):
            if not self.checked:
                return
            slot = sorted(self.checked)[k % len(self.checked)]
            self.ops.append(["run", slot, 0, pair])

        @rule(k=st.integers(0, 5), pair=st.sampled_from([0, 5, 1003, 1015, 1021]))
        def run_again(self, k, pair):
            runs = [o for o in self.ops if o[0] == "run"]
            if runs:
                o = runs[k % len(runs)]
                if o[1] in self.checked:
                    self.ops.append(["run", o[1], 0, o[3]])

        def teardown(self):
            payload = {"ops": self.ops}
            sub = Ctx(prop=ctx.prop, check=ctx.check, tier=ctx.tier, known=ctx.known)
            try:
                replay_history(sub, payload)
            except Violation as v:
                size = len(dumps(payload))
                if state["best"] is None or size <= state["best"][0]:
                    state["best"] = (size, {"signature": v.signature, "detail": v.detail, "payload": json.loads(dumps(payload)),
                                            "digest": digest(payload)})
                raise
            finally:
                ctx.evaluations += sub.evaluations
                ctx.nontrivial |= sub.nontrivial
                ctx.judged += sub.judged
                for k, v in sub.classes.items():
                    ctx.classes[k] = ctx.classes.get(k, 0) + v
                if sub.samples and len(ctx.samples) < 3:
                    ctx.samples.append(sub.samples[0])

    cfg = settings(max_examples=n, stateful_step_count=12, deadline=None, database=None, report_multiple_bugs=False,
                   print_blob=False, phases=[Phase.generate, Phase.shrink], suppress_health_check=list(HealthCheck))
    try:
        run_state_machine_as_test(hypothesis.seed(seed_val)(History), settings=cfg)
    except Violation:
        pass
    except HarnessError:
        raise
    except BaseException as exc:  # noqa: BLE001
        if state["best"] is None:
            raise HarnessError(f"stateful run failed without a violation: {type(exc).__name__}: {exc}") from exc
    if state["best"] is not None:
        ctx.violations.append(state["best"][1])


# ---------------------------------------------------------------------------------------------------------------
# (b) environments
# ---------------------------------------------------------------------------------------------------------------
def child_main(argv):
    """python -m pbt.props.c18 child <cases.json> <out.json> [chunksize] [repeat]"""
    cases_path, out_path, chunk, repeat = argv[0], argv[1], int(argv[2]), int(argv[3])
    env.bootstrap()
    import numba

    if chunk:
        numba.set_parallel_chunksize(chunk)
    with open(cases_path) as f:
        cases = json.load(f)
    res = []
    for pidx, pseed in cases:
        hs = []
        for _ in range(repeat):
            full, reduced, diff, _ = run_case(pidx, pseed)
            hs.append([full, reduced, diff])
        res.append(hs)
    info = {"threads": numba.get_num_threads(), "layer": None}
    try:
        info["layer"] = numba.threading_layer()
    except Exception:  # noqa: BLE001
        pass
    with open(out_path, "w") as f:
        json.dump({"results": res, "info": info}, f)
    return 0


ENVS_QUICK = [(1, "omp", 0, True), (2, "workqueue", 0, True), (5, "omp", 1, True), (16, "omp", 7, True), (3, "omp", 0, False)]
ENVS_THOROUGH = [(t, l, c, True) for t in (1, 2, 3, 5, 8, 16) for l in ("omp", "workqueue") for c in (0, 1, 7)] + \
                [(1, "omp", 0, False), (4, "omp", 0, False), (16, "workqueue", 0, False)]


def env_body(ctx: Ctx, p: dict) -> None:
    """payload: {"cases": [[pipeline idx, pair seed], ...], "envs": [[threads, layer, chunk, parallel], ...], "repeat": k}"""
    work = os.path.join(env.VERIF_DIR, ".work", f"c18-{os.getpid()}-{digest(p)}")
    os.makedirs(work, exist_ok=True)
    cases_path = os.path.join(work, "cases.json")
    with open(cases_path, "w") as f:
        json.dump(p["cases"], f)
    outs = []
    procs = []
    for i, (threads, layer, chunk, parallel) in enumerate(p["envs"]):
        e = dict(os.environ)
        e["PANDORA_NUMBA_PARALLEL"] = "True" if parallel else "False"
        e["NUMBA_NUM_THREADS"] = str(threads)
        e["NUMBA_THREADING_LAYER"] = layer
        e["OMP_NUM_THREADS"] = str(threads)
        e["NUMBA_CACHE_DIR"] = env.cache_dir(e["PANDORA_NUMBA_PARALLEL"])
        out = os.path.join(work, f"out{i}.json")
        outs.append(out)
        logf = open(out + ".log", "w")
        procs.append(subprocess.Popen([sys.executable, "-m", "pbt.props.c18", "child", cases_path, out, str(chunk), str(p["repeat"])],
                                      env=e, cwd=env.VERIF_DIR, stdout=logf, stderr=subprocess.STDOUT))
        if len(procs) >= 4:
            procs.pop(0).wait()
    for pr in procs:
        pr.wait()
    results = []
    for out, envd in zip(outs, p["envs"]):
        if not os.path.exists(out):
            with open(out + ".log") as lf:
                raise HarnessError(f"child for environment {envd} produced no result:\n{lf.read()[-1500:]}")
        with open(out) as f:
            results.append(json.load(f))
    import shutil

    shutil.rmtree(work, ignore_errors=True)
    ref_full = ref_red = None
    for ci, (pidx, pseed) in enumerate(p["cases"]):
        ref_full = ref_full or {}
        ref_full[ci] = (pristine_hash(pidx, pseed), "pristine single-case process")
    for (threads, layer, chunk, parallel), res in zip(p["envs"], results):
        tag = f"threads={threads} layer={layer}->{res['info']['layer']} chunk={chunk} parallel={parallel}"
        for ci, hs in enumerate(res["results"]):
            fulls = {h[0] for h in hs}
            reds = {tuple(h[1]) for h in hs}
            if any(h[2] for h in hs):
                ctx.violation("C18/caller-datasets-modified", f"case {p['cases'][ci]} {tag}: {hs[0][2]}")
            if len(fulls) > 1:
                ctx.violation("C18/products-differ-between-repetitions", f"case {p['cases'][ci]} {tag}")
            if parallel:
                ref_full = ref_full or {}
                if ci in ref_full and ref_full[ci][0] != hs[0][0]:
                    ctx.violation("C18/products-depend-on-threading", f"case {p['cases'][ci]}: {tag} differs from {ref_full[ci][1]}")
                ref_full.setdefault(ci, (hs[0][0], tag))
            ref_red = ref_red or {}
            if ci in ref_red and ref_red[ci][0] != hs[0][1]:
                a, b = ref_red[ci][0], hs[0][1]
                regularised = any(c.get("regularization") for _, c in PIPELINES[p["cases"][ci][0]])
                if a[0] == b[0] and a[2] == b[2] and regularised and not parallel:
                    ctx.violation("C18/regularisation-flag-depends-on-parallel-switch",
                                  f"case {p['cases'][ci]}: bit 11 differs, {tag} vs {ref_red[ci][1]}")
                else:
                    what = "disparity map" if a[0] != b[0] else "pre-validation flags"
                    ctx.violation("C18/disparity-or-flags-depend-on-parallel-switch",
                                  f"case {p['cases'][ci]}: {what} differ, {tag} vs {ref_red[ci][1]}")
            ref_red.setdefault(ci, (hs[0][1], tag))
            ctx.judged += len(hs)
    ctx.case(p, nontrivial=len(p["envs"]) >= 4, classes=[f"envs={len(p['envs'])}", f"cases={len(p['cases'])}"])


def env_runner(ctx: Ctx, tier, seed_val, shard, nshards, n):
    from ..core import guarded

    rng = np.random.RandomState(seed_val % (2**31))
    envs = ENVS_QUICK if tier == "quick" else ENVS_THOROUGH
    for k in range(n):
        cases = [[int(rng.randint(0, len(PIPELINES))), int(rng.randint(0, 1000))] for _ in range(3 if tier == "quick" else 6)]
        # every pipeline appears across the shards (two fixed slots per payload)
        cases[0][0] = (2 * (shard * n + k)) % len(PIPELINES)
        cases[1][0] = (2 * (shard * n + k) + 1) % len(PIPELINES)
        payload = {"cases": cases, "envs": [list(e) for e in envs], "repeat": 2 if tier == "quick" else 5}
        try:
            guarded(ctx, env_body, payload)
        except Violation as v:
            ctx.violations.append({"signature": v.signature, "detail": v.detail, "payload": json.loads(dumps(payload)),
                                   "digest": digest(payload)})
            return


def enumerate_orders(tier, shard, nshards):
    """every pipeline of the table once as the FIRST thing a process does, followed by all the others (rotated, so that
    every ordered pair 'i ran before j' occurs), each on its own machine object, then the first one again"""
    n = len(PIPELINES)
    variants = [(i, 0, 1) for i in range(n)] + [(i, 1003, 1) for i in range(0, n, 2)] + [(i, 1021, 1) for i in range(1, n, 2)]
    if tier != "quick":
        variants += [(i, 1015, -1) for i in range(n)] + [(i, 5, 1) for i in range(n)] + [(i, 0, -1) for i in range(n)] + [(i, 5, -1) for i in range(n)]
    for k, (i, pair, direction) in enumerate(variants):
        if k % nshards != shard:
            continue
        ops = []
        for step in range(n):
            j = (i + direction * step) % n
            ops += [["new", step, j, 0], ["check", step, 0, pair], ["run", step, 0, pair]]
        ops.append(["run", 0, 0, pair])
        yield {"ops": ops}


CHECKS = [
    Check("orders", replay_history, enumerate=enumerate_orders, exhaustive=True, budget={"quick": (8, 0), "thorough": (16, 0)}),
    Check("history", replay_history, custom=history_runner, budget={"quick": (10, 6), "thorough": (16, 60)}),
    Check("environments", env_body, custom=env_runner, budget={"quick": (4, 1), "thorough": (4, 4)}, threads=4),
]

if __name__ == "__main__":
    if sys.argv[1] == "child":
        sys.exit(child_main(sys.argv[2:]))
