"""C17 — malformed inputs are refused up front; well-formed inputs never are.

Fault sequences: a generated well-formed dataset pair / input section with a set of contract violations applied
(exhaustively all singles and pairs on four base classes, random larger sets by Hypothesis).  Oracle: accepted iff
the violation set is empty; refusal = an exception raised by the checking call itself."""
from __future__ import annotations

import copy
import itertools
import os

import numpy as np
import xarray as xr
from hypothesis import strategies as st

from .. import build, files
from ..core import Check, Ctx

ID = "C17"
RULE = (
    "datasets: base classes {mono, multiband+mask, grids+classif+segm+ROI coordinates, mono with NaN pixels and right "
    "disparity} x every single and every pair of the 20 dataset violations (exhaustive), plus Hypothesis-generated "
    "well-formed pairs with 0-3 violations; inputs: base input sections {int interval, left grid, both grids, "
    "multiband with mask/classif/segm} on real GeoTIFFs x every single and pair of the 17 input violations. "
    "Non-trivial = a well-formed case using >= 2 optional features, or a malformed case with exactly one violation; "
    "distinct = distinct (base class, violation set) / canonical payload."
)
ASSUMPTIONS = [
    "violations that cannot apply to a base class (e.g. non-string band name on a mono-band image) are skipped",
    "refusal = any exception raised by check_datasets / check_input_section / check_conf before run_prepare",
]

ATTRS = ["no_data_img", "valid_pixels", "no_data_mask", "crs", "transform"]
DS_VIOLATIONS = (["L:no-im", "R:no-im", "L:all-nan", "R:all-nan", "L:band-not-str", "R:band-not-str", "L:band-partly-str",
                 "R:band-partly-str", "L:msk-off-grid", "L:disparity-off-grid", "R:disparity-off-grid",
                  "R:msk-off-grid"] + [f"L:attr-{a}" for a in ATTRS[:3]] + [f"R:attr-{a}" for a in ATTRS[3:]] +
                 ["L:no-disparity", "L:band_disp-names", "L:band_disp-only-min", "L:no-band_disp", "L:min>max", "R:min>max",
                  "R:other-size", "R:same-count-other-shape"])


def base_pair(cls: int, seed: int = 0):
    rng = np.random.RandomState(seed)
    H, W = 6 + seed % 3, 7 + seed % 4
    if cls in (1,):
        im = rng.randint(0, 9, (3, H, W)).astype(np.float32)
        bands = ["r", "g", "b"]
    else:
        im = rng.randint(0, 9, (H, W)).astype(np.float32)
        bands = None
    kw = {}
    if cls == 1:
        kw["msk"] = (rng.rand(H, W) < 0.2).astype(np.int16)
    if cls == 2:
        kw.update(classif=rng.randint(0, 2, (2, H, W)), classif_bands=["veg", "water"], segm=rng.randint(0, 3, (H, W)),
                  row0=5, col0=9)
        lo = rng.randint(-3, 1, (H, W)).astype(np.float32)
        disp = (lo, lo + rng.randint(0, 3, (H, W)))
    else:
        disp = (-2, 2)
    if cls == 3:
        im[0, 0] = np.nan
        im[2, 3] = np.nan
        if seed % 2:
            im[:, -1] = np.nan  # a NaN border column (every row holds a NaN): still "not entirely NaN"
        elif seed % 4 == 2:
            im[np.arange(min(im.shape)), np.arange(min(im.shape))] = np.nan  # a NaN diagonal
        disp = (1, 1)  # a point interval (min == max) is well-formed
    l = build.image_dataset(im, disp=disp, bands=bands, **kw)
    rdisp = None
    if cls == 3:
        rdisp = (-1, -1)
    if cls == 2:
        rdisp = (-disp[1], -disp[0])
    r = build.image_dataset(np.roll(im, 1, axis=-1), disp=rdisp, bands=bands, **kw)
    if cls == 2:
        l.attrs["extra"] = "something"
    return l, r


def applicable(cls: int, v: str) -> bool:
    side, what = v.split(":")
    if what in ("band-not-str", "band-partly-str"):
        return cls == 1
    if what == "msk-off-grid":
        return True
    if v in ("R:min>max", "R:disparity-off-grid"):
        return cls in (2, 3)
    return True


def apply_ds(l: xr.Dataset, r: xr.Dataset, v: str):
    side, what = v.split(":")
    ds = l if side == "L" else r
    if what == "no-im":
        ds = ds.drop_vars("im")
    elif what == "all-nan":
        if "im" in ds:
            ds["im"].data[:] = np.nan
    elif what == "band-not-str":
        if "band_im" in ds.coords:
            ds = ds.assign_coords(band_im=[1, 2, 3])
    elif what == "band-partly-str":
        if "band_im" in ds.coords:
            ds = ds.assign_coords(band_im=np.array(["r", 2, "b"], dtype=object))
    elif what == "msk-off-grid":
        if "im" in ds:
            h, w = ds["im"].shape[-2:]
            ds = ds.drop_vars("msk", errors="ignore")
            if side == "L":
                ds["msk"] = xr.DataArray(np.zeros((h + 1, w), dtype=np.int16), dims=["row_m", "col"])
            else:
                ds["msk"] = xr.DataArray(np.zeros((h, w + 1), dtype=np.int16), dims=["row", "col_m"])
    elif what.startswith("attr-"):
        ds.attrs.pop(what[5:], None)
    elif what == "no-disparity":
        ds = ds.drop_vars("disparity", errors="ignore")
    elif what == "disparity-off-grid":
        # an interval grid that is otherwise well-formed (min <= max, bands min / max) but not on the image's row / column grid
        if "disparity" in ds and "im" in ds:
            h, w = ds["im"].shape[-2:]
            ds = ds.drop_vars("disparity")
            grid = np.stack([np.full((h + 1, w), -2.0, dtype=np.float32), np.full((h + 1, w), 2.0, dtype=np.float32)])
            ds["disparity"] = xr.DataArray(grid, dims=["band_disp", "row_d", "col"])
    elif what == "band_disp-names":
        if "disparity" in ds:
            ds = ds.assign_coords(band_disp=["lo", "hi"])
    elif what == "band_disp-only-min":
        if "disparity" in ds:
            ds = ds.assign_coords(band_disp=["min", "hi"])
    elif what == "no-band_disp":
        if "disparity" in ds:
            d, dims = ds["disparity"].data, list(ds["disparity"].dims[1:])
            ds = ds.drop_vars("disparity").drop_vars("band_disp", errors="ignore")
            ds["disparity"] = xr.DataArray(d, dims=["band_d"] + dims)
    elif what == "min>max":
        if "disparity" in ds:
            d = ds["disparity"].data.copy()
            d[0, 1, 2] = d[1, 1, 2] + 1
            ds["disparity"] = xr.DataArray(d, dims=ds["disparity"].dims)
    elif what == "other-size":
        if "im" in ds:
            ds = ds.isel(col=slice(0, ds.sizes["col"] - 1))
    elif what == "same-count-other-shape":
        # a right image with as many samples as the left one, arranged on another row / column grid
        if "im" in ds:
            im = ds["im"].data
            h, w = im.shape[-2:]
            k = next(k for k in list(range(2, h * w)) + [1] if (h * w) % k == 0 and k != w and (h * w) // k != h)
            bands = [str(b) for b in ds.coords["band_im"].data] if im.ndim == 3 else None
            ds = build.image_dataset(np.ascontiguousarray(im).reshape(im.shape[:-2] + ((h * w) // k, k)), disp=None, bands=bands)
    return (ds, r) if side == "L" else (l, ds)


def effective(cls: int, vs) -> list:
    """violations that really bite on this base class (a violation may be masked by another, e.g. no-im)"""
    return [v for v in vs if applicable(cls, v)]


def judge_ds(ctx: Ctx, cls: int, vs, seed: int = 0):
    from pandora.check_configuration import check_datasets

    l, r = base_pair(cls, seed)
    vs = effective(cls, vs)
    # order: structural removals last so that value edits still apply
    for v in sorted(vs, key=lambda x: ("no-im" in x, x)):
        l, r = apply_ds(l, r, v)
    # a violation can be cancelled by another one of the set (disparity removed => its faults vanish)
    still = []
    for v in vs:
        side, what = v.split(":")
        ds = l if side == "L" else r
        if what in ("band_disp-names", "band_disp-only-min", "no-band_disp", "min>max", "disparity-off-grid") and "disparity" not in ds:
            continue
        if what in ("all-nan", "other-size") and "im" not in ds:
            continue
        still.append(v)
    if "L:no-disparity" in vs and "L:no-disparity" not in still:
        still.append("L:no-disparity")
    try:
        check_datasets(l, r)
        accepted, err = True, None
    except Exception as exc:  # noqa: BLE001
        accepted, err = False, exc
    tag = f"class={cls} violations={still}"
    if still and accepted:
        ctx.violation("C17/malformed-dataset-accepted", tag)
    if not still and not accepted:
        ctx.violation("C17/well-formed-dataset-refused", f"{tag}: {type(err).__name__}: {str(err)[:120]}")
    ctx.judged += 1
    return still


def enumerate_ds(tier, shard, nshards):
    n = 0
    for cls in range(4):
        sets = [()] + [(v,) for v in DS_VIOLATIONS] + list(itertools.combinations(DS_VIOLATIONS, 2))
        for vs in sets:
            if n % nshards == shard:
                yield {"cls": cls, "violations": list(vs)}
            n += 1


def ds_exhaustive_body(ctx: Ctx, p: dict) -> None:
    still = judge_ds(ctx, p["cls"], p["violations"])
    ctx.case({"cls": p["cls"], "v": sorted(still)}, nontrivial=bool(len(still) == 1 or (not still and p["cls"] in (1, 2, 3))),
             classes=[f"n={len(still)}"])


@st.composite
def ds_random_cases(draw):
    n = draw(st.sampled_from([0, 0, 1, 1, 2, 3]))
    return {"cls": draw(st.integers(0, 3)), "seed": draw(st.integers(0, 40)),
            "violations": draw(st.lists(st.sampled_from(DS_VIOLATIONS), min_size=n, max_size=n, unique=True))}


def ds_random_body(ctx: Ctx, p: dict) -> None:
    still = judge_ds(ctx, p["cls"], p["violations"], p["seed"])
    ctx.case(p, nontrivial=bool(len(still) == 1 or (not still and p["cls"] in (1, 2, 3))), classes=[f"n={len(still)}"])


# ---------------------------------------------------------------------------------------------------------------
IN_VIOLATIONS = ["L:img-unreadable", "R:img-unreadable", "L:nodata-float", "R:nodata-str", "L:nodata-inf", "R:nodata-inf", "L:mask-size", "R:mask-size",
                 "L:classif-size", "R:segm-size", "L:mask-unreadable", "disp:max<min", "disp:one-band-grid", "disp:grid-size",
                 "disp:right-list", "disp:right-grid-with-left-list", "disp:right-grid-inverted", "disp:right-grid-size",
                 "disp:right-grid-one-band", "disp:len3", "disp:len1", "R:img-size", "disp:missing",
                 "disp:float"]


def write_base(d, cls):
    H, W = 8, 9
    rng = np.random.RandomState(cls)
    nb = 3 if cls == 3 else 1
    img = rng.randint(0, 9, (nb, H, W)).astype(np.float32)
    desc = ["r", "g", "b"][:nb] if nb > 1 else None
    f = {}
    f["left"] = files.write_tiff(os.path.join(d, "left.tif"), img, descriptions=desc)
    f["right"] = files.write_tiff(os.path.join(d, "right.tif"), np.roll(img, 1, 2), descriptions=desc)
    f["mask"] = files.write_tiff(os.path.join(d, "mask.tif"), (rng.rand(H, W) < 0.2).astype(np.int16), dtype="int16")
    f["classif"] = files.write_tiff(os.path.join(d, "classif.tif"), rng.randint(0, 2, (2, H, W)), dtype="int16",
                                    descriptions=["veg", "water"])
    f["segm"] = files.write_tiff(os.path.join(d, "segm.tif"), rng.randint(0, 3, (H, W)), dtype="int16")
    lo = rng.randint(-3, 1, (H, W))
    f["grid"] = files.write_tiff(os.path.join(d, "grid.tif"), np.stack([lo, lo + rng.randint(0, 3, (H, W))]), dtype="float32")
    f["rgrid"] = files.write_tiff(os.path.join(d, "rgrid.tif"), np.stack([-lo - 2, -lo]), dtype="float32")
    bad = np.stack([-lo - 2, -lo]).astype(np.float32)
    bad[0, 2, 3] = bad[1, 2, 3] + 1  # min > max at one pixel
    f["rgrid_inverted"] = files.write_tiff(os.path.join(d, "rgrid_inverted.tif"), bad, dtype="float32")
    f["small"] = files.write_tiff(os.path.join(d, "small.tif"), np.zeros((H - 1, W), dtype=np.int16), dtype="int16")
    f["small_img"] = files.write_tiff(os.path.join(d, "small_img.tif"), np.zeros((nb, H, W - 1), dtype=np.float32), descriptions=desc)
    f["grid1"] = files.write_tiff(os.path.join(d, "grid1.tif"), lo.astype(np.float32))
    f["grid_small"] = files.write_tiff(os.path.join(d, "grid_small.tif"), np.zeros((2, H, W + 1), dtype=np.float32))
    f["missing"] = os.path.join(d, "does_not_exist.tif")
    left = {"img": f["left"]}
    right = {"img": f["right"]}
    if cls == 0:
        left["disp"] = [-2, 2]
    elif cls == 1:
        left["disp"] = f["grid"]
    elif cls == 2:
        left["disp"] = f["grid"]
        right["disp"] = f["rgrid"]
        left["nodata"] = "NaN"
    else:
        # a point interval (min == max) is well-formed
        left.update(disp=[1, 1], mask=f["mask"], classif=f["classif"], segm=f["segm"], nodata=0)
        right.update(mask=f["mask"], classif=f["classif"], segm=f["segm"], nodata=-9999, disp=None)
    return f, {"left": left, "right": right}


def in_applicable(cls, v):
    if v in ("disp:max<min", "disp:len3", "disp:len1", "disp:float"):
        return True  # replaces the left disparity by a list form
    return True


def apply_in(inp, f, v, cls):
    side = {"L": "left", "R": "right"}.get(v.split(":")[0])
    what = v.split(":")[1]
    if what == "img-unreadable":
        inp[side]["img"] = f["missing"]
    elif what == "nodata-float":
        inp[side]["nodata"] = 1.5
    elif what == "nodata-str":
        inp[side]["nodata"] = "zero"
    elif what == "nodata-inf":
        # integer or NaN are the documented forms: an infinite no-data value is neither
        inp[side]["nodata"] = "inf" if side == "left" else "-inf"
    elif what == "mask-size":
        inp[side]["mask"] = f["small"]
    elif what == "classif-size":
        inp[side]["classif"] = f["small"]
    elif what == "segm-size":
        inp[side]["segm"] = f["small"]
    elif what == "mask-unreadable":
        inp[side]["mask"] = f["missing"]
    elif what == "img-size":
        inp["right"]["img"] = f["small_img"]
    elif v == "disp:max<min":
        inp["left"]["disp"] = [2, -2]
        inp["right"].pop("disp", None)
    elif v == "disp:one-band-grid":
        inp["left"]["disp"] = f["grid1"]
    elif v == "disp:grid-size":
        inp["left"]["disp"] = f["grid_small"]
    elif v == "disp:right-list":
        inp["left"]["disp"] = [-2, 2]
        inp["right"]["disp"] = [-2, 2]
    elif v == "disp:right-grid-with-left-list":
        inp["left"]["disp"] = [-2, 2]
        inp["right"]["disp"] = f["rgrid"]
    elif v in ("disp:right-grid-inverted", "disp:right-grid-size", "disp:right-grid-one-band"):
        # left and right grids, the RIGHT one malformed
        inp["left"]["disp"] = f["grid"]
        inp["right"]["disp"] = {"disp:right-grid-inverted": f["rgrid_inverted"], "disp:right-grid-size": f["grid_small"],
                                "disp:right-grid-one-band": f["grid1"]}[v]
    elif v == "disp:len3":
        inp["left"]["disp"] = [-2, 0, 2]
        inp["right"].pop("disp", None)
    elif v == "disp:len1":
        inp["left"]["disp"] = [2]
        inp["right"].pop("disp", None)
    elif v == "disp:missing":
        inp["left"].pop("disp", None)
    elif v == "disp:float":
        inp["left"]["disp"] = [-2.5, 2]
        inp["right"].pop("disp", None)


# violations that overwrite the same field: the later one wins, the earlier is cancelled
DISP_EDITS = {"disp:max<min", "disp:one-band-grid", "disp:grid-size", "disp:right-list", "disp:right-grid-with-left-list",
              "disp:right-grid-inverted", "disp:right-grid-size", "disp:right-grid-one-band",
              "disp:len3", "disp:len1", "disp:missing", "disp:float"}


def judge_in(ctx: Ctx, cls, vs, entry):
    from pandora.check_configuration import check_conf, check_input_section
    from pandora.state_machine import PandoraMachine

    disp_v = [v for v in vs if v in DISP_EDITS]
    if len(disp_v) > 1:
        vs = [v for v in vs if v not in disp_v[:-1]]  # only the last edit of the disparity field survives
    vs = [v for v in vs if not (v == "R:img-size" and "R:img-unreadable" in vs)]
    vs = [v for v in vs if not (v == "L:mask-size" and "L:mask-unreadable" in vs)]
    with files.scratch_dir("c17") as d:
        f, inp = write_base(d, cls)
        for v in vs:
            if v == "L:mask-unreadable":
                continue
            apply_in(inp, f, v, cls)
        if "L:mask-unreadable" in vs:
            apply_in(inp, f, "L:mask-unreadable", cls)
        user = {"input": inp}
        started = []
        if entry == "check_conf":
            user["pipeline"] = {"matching_cost": {"matching_cost_method": "sad", "window_size": 3,
                                                  **({"band": "r"} if cls == 3 else {})},
                                "disparity": {"disparity_method": "wta"}}
            orig = PandoraMachine.run_prepare
            PandoraMachine.run_prepare = lambda self, *a, **k: (started.append(1), orig(self, *a, **k))[1]
        try:
            try:
                if entry == "check_conf":
                    check_conf(copy.deepcopy(user), PandoraMachine())
                else:
                    check_input_section(copy.deepcopy(user))
                accepted, err = True, None
            except Exception as exc:  # noqa: BLE001
                accepted, err = False, exc
        finally:
            if entry == "check_conf":
                PandoraMachine.run_prepare = orig
    tag = f"class={cls} entry={entry} violations={vs}"
    if vs and accepted:
        sig = "C17/disparity-list-of-length-3-accepted" if vs == ["disp:len3"] else "C17/malformed-input-accepted"
        ctx.violation(sig, tag)
    if not vs and not accepted:
        ctx.violation("C17/well-formed-input-refused", f"{tag}: {type(err).__name__}: {str(err)[:150]}")
    if started:
        ctx.violation("C17/matching-started-during-check", tag)
    ctx.judged += 1
    return vs


def enumerate_in(tier, shard, nshards):
    n = 0
    for cls in range(4):
        sets = [()] + [(v,) for v in IN_VIOLATIONS] + list(itertools.combinations(IN_VIOLATIONS, 2))
        for vs in sets:
            for entry in ("check_input_section", "check_conf"):
                if n % nshards == shard:
                    yield {"cls": cls, "violations": list(vs), "entry": entry}
                n += 1


def in_body(ctx: Ctx, p: dict) -> None:
    still = judge_in(ctx, p["cls"], list(p["violations"]), p["entry"])
    ctx.case({"cls": p["cls"], "v": still, "e": p["entry"]}, nontrivial=bool(len(still) == 1 or (not still and p["cls"] >= 1)),
             classes=[f"n={len(still)}", p["entry"]])



# ---------------------------------------------------------------------------------------------------------------
# histories: the verdict on a section describes the files as they are NOW, whatever was checked before in the process
# ---------------------------------------------------------------------------------------------------------------
HIST_FIELDS = [("left", "img"), ("right", "img"), ("left", "mask"), ("right", "mask"), ("left", "classif"),
               ("right", "segm"), ("left", "disp"), ("right", "disp")]


def enumerate_hist(tier, shard, nshards):
    n = 0
    for side, field in HIST_FIELDS:
        for order in ("missing-then-written", "present-then-deleted", "wrong-size-then-replaced"):
            for entry in ("check_input_section", "check_conf"):
                if n % nshards == shard:
                    yield {"side": side, "field": field, "order": order, "entry": entry}
                n += 1


def hist_body(ctx: Ctx, p: dict) -> None:
    import shutil

    from pandora.check_configuration import check_conf, check_input_section
    from pandora.state_machine import PandoraMachine

    side, field, order, entry = p["side"], p["field"], p["order"], p["entry"]
    cls = 2 if field == "disp" else 3
    with files.scratch_dir("c17h") as d:
        f, inp = write_base(d, cls)
        good = inp[side][field]
        late = os.path.join(d, f"late_{side}_{field}.tif")
        inp[side][field] = late
        # a file of another size for the same role (an image one column narrower, a mask / grid of another shape)
        wrong = f["small_img"] if field == "img" else (f["grid_small"] if field == "disp" else f["small"])

        def verdict():
            user = {"input": copy.deepcopy(inp)}
            try:
                if entry == "check_conf":
                    user["pipeline"] = {"matching_cost": {"matching_cost_method": "sad", "window_size": 3,
                                                          **({"band": "r"} if cls == 3 else {})},
                                        "disparity": {"disparity_method": "wta"}}
                    check_conf(user, PandoraMachine())
                else:
                    check_input_section(user)
                return True, None
            except Exception as exc:  # noqa: BLE001
                return False, exc

        tag = f"{side}.{field} {order} entry={entry}"
        if order == "missing-then-written":
            states = [(None, False), (good, True)]
        elif order == "present-then-deleted":
            states = [(good, True), (None, False)]
        else:
            states = [(wrong, False), (good, True), (wrong, False)]
        for i, (src, expected) in enumerate(states):
            if os.path.exists(late):
                os.remove(late)
            if src is not None:
                shutil.copyfile(src, late)
            ok, err = verdict()
            ctx.judged += 1
            if ok and not expected:
                ctx.violation("C17/malformed-input-accepted", f"{tag}: step {i} (file {'absent' if src is None else 'of another size'}) accepted")
            if not ok and expected:
                ctx.violation("C17/well-formed-input-refused", f"{tag}: step {i}, the file is now present and well-formed: "
                                                               f"{type(err).__name__}: {str(err)[:120]}")
    ctx.case(p, nontrivial=True, classes=[order, entry])


CHECKS = [
    Check("datasets-exhaustive", ds_exhaustive_body, enumerate=enumerate_ds, exhaustive=True, budget={"quick": (4, 0), "thorough": (4, 0)}),
    Check("datasets-random", ds_random_body, strategy=ds_random_cases, budget={"quick": (4, 150), "thorough": (16, 1500)}),
    Check("inputs-history", hist_body, enumerate=enumerate_hist, exhaustive=True, budget={"quick": (4, 0), "thorough": (4, 0)}),
    Check("inputs-exhaustive", in_body, enumerate=enumerate_in, exhaustive=True, budget={"quick": (8, 0), "thorough": (8, 0)}),
]
