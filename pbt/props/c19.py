"""C19 — saved products equal the computed ones and the saved configuration replays.

`pandora.main` is run in-process on harness-written GeoTIFF pairs with a wrapper on `common.save_results` that
captures the datasets actually saved; the written rasters are read back and compared value for value; the saved
`cfg/config.json` is loaded, compared with the completed configuration + margins, and fed back to `pandora.main`,
which must accept it and reproduce identical rasters."""
from __future__ import annotations

import copy
import json
import math
import os

import numpy as np
from hypothesis import strategies as st

from .. import files, gen
from ..core import Check, Ctx

ID = "C19"
RULE = (
    "Hypothesis-generated accepted configurations on harness-written GeoTIFF pairs (10-16 x 12-20, with or without "
    "CRS/transform, masks, nodata int or 'NaN'): legal pipelines with and without validation (incl. filling) and with "
    "0-3 confidence steps, invalid_disparity in {-9999, 'NaN'}, integer interval or grid files (left only, or left and "
    "right with validation), the right image with its own geotransform in part of the cases; one case in eight is also run "
    "through the console entry point (pandora.Pandora:main via argparse) in a separate process and must write the same "
    "files. Non-trivial = >= 1 confidence band and >= 1 invalid pixel in the left map; classes: "
    "interval kind, validation, georeferencing. distinct = distinct canonical payload."
)
ASSUMPTIONS = [
    "pandora.main is called in-process so that the in-memory products can be captured; the console entry point is run in a "
    "sub-process for a sample of the cases and compared file by file",
    "the 'completed configuration' is what check_configuration.check_conf returns for the same user file on a fresh machine",
    "the undocumented 'indicator' key of confidence steps (rewritten at run time from the step suffix) is not compared",
]

FILES = ["disparity", "validity_mask", "confidence_measure"]


def same(a, b) -> bool:
    if isinstance(a, float) and isinstance(b, float) and math.isnan(a) and math.isnan(b):
        return True
    if isinstance(a, dict) and isinstance(b, dict):
        return set(a) == set(b) and all(same(a[k], b[k]) for k in a)
    if isinstance(a, (list, tuple)) and isinstance(b, (list, tuple)):
        return len(a) == len(b) and all(same(x, y) for x, y in zip(a, b))
    return a == b


@st.composite
def cases(draw):
    pair = draw(gen.image_pair(min_rows=10, max_rows=16, min_cols=12, max_cols=20, max_val=20, masks=True, conventions=False))
    steps = draw(gen.legal_pipeline(validation="maybe", max_post=3))
    a = draw(st.integers(-4, 0))
    b = a + draw(st.integers(1, 5))
    return {"pair": pair, "pipeline": steps, "disp": [a, b], "grid": draw(st.integers(0, 2)) == 0,
            "georef": draw(st.booleans()), "nodata": draw(st.sampled_from(["omit", -9999, 0, "NaN"])),
            # the right image has its own footprint (same CRS, another origin) in half of the georeferenced cases
            "georef_right": draw(st.sampled_from([None, [12.5, -3.0], [-40.0, 7.5]])),
            # one case in eight is also run through the console entry point in a separate process
            "cli": draw(st.integers(0, 7)) == 0,
            # the coordinate system is an EPSG code or a projection that has no authority code at all
            "crs": draw(st.sampled_from(["epsg", "epsg", "local"]))}


def read_products(outdir):
    out = {}
    for side in ("left", "right"):
        for f in FILES:
            path = os.path.join(outdir, f"{side}_{f}.tif")
            if os.path.exists(path):
                out[f"{side}_{f}"] = files.read_tiff(path)
    return out


def body(ctx: Ctx, p: dict) -> None:
    import pandora
    from pandora import common
    from pandora.check_configuration import check_conf
    from pandora.state_machine import PandoraMachine

    left, right, ml, mr = gen.materialise_pair(p["pair"])
    H, W = left.shape
    names = [n.split(".")[0] for n, _ in p["pipeline"]]
    has_val = "validation" in names
    a, b = p["disp"]
    with files.scratch_dir("c19") as d:
        crs = files.LOCAL_CRS if p.get("crs") == "local" else "EPSG:32631"
        inp_l = {"img": files.write_tiff(os.path.join(d, "left.tif"), left, georef=p["georef"], crs=crs)}
        geo_r = tuple(p["georef_right"]) if (p["georef"] and p.get("georef_right")) else p["georef"]
        inp_r = {"img": files.write_tiff(os.path.join(d, "right.tif"), right, georef=geo_r, crs=crs)}
        if ml is not None:
            inp_l["mask"] = files.write_tiff(os.path.join(d, "ml.tif"), (ml != 0).astype(np.int16) * np.where(ml == 1, 1, 3).astype(np.int16), dtype="int16")
        if mr is not None:
            inp_r["mask"] = files.write_tiff(os.path.join(d, "mr.tif"), (mr != 0).astype(np.int16), dtype="int16")
        if p["nodata"] != "omit":
            inp_l["nodata"] = p["nodata"]
            inp_r["nodata"] = p["nodata"]
        if p["grid"]:
            lo = (np.arange(H * W).reshape(H, W) % (b - a + 1) + a).astype(np.float32)
            hi = np.minimum(lo + 2, b)
            inp_l["disp"] = files.write_tiff(os.path.join(d, "grid.tif"), np.stack([lo, hi]))
            if has_val:
                inp_r["disp"] = files.write_tiff(os.path.join(d, "rgrid.tif"), np.stack([-hi, -lo]))
        else:
            inp_l["disp"] = [a, b]
        user = {"input": {"left": inp_l, "right": inp_r}, "pipeline": gen.pipe_dict(p["pipeline"])}
        cfg_path = os.path.join(d, "user.json")
        with open(cfg_path, "w") as f:
            json.dump(user, f)
        tag = f"pipeline={p['pipeline']} grid={p['grid']} georef={p['georef']} nodata={p['nodata']}"
        captured = {}
        orig = common.save_results

        def spy_save(l, r, output):
            captured["left"], captured["right"] = l.copy(deep=True), r.copy(deep=True)
            return orig(l, r, output)

        common.save_results = spy_save
        out1 = os.path.join(d, "out1")
        try:
            pandora.main(cfg_path, out1, False)
        finally:
            common.save_results = orig
        prods = read_products(out1)
        in_profiles = {"left": files.read_tiff(inp_l["img"])[1], "right": files.read_tiff(inp_r["img"])[1]}
        # ---- rasters equal the in-memory products
        for side in ("left", "right"):
            ds = captured[side]
            present = "disparity_map" in ds
            if side == "right" and present != has_val:
                ctx.violation("C19/right-products-presence", f"validation={has_val} but right products present={present} {tag}")
            exists = f"{side}_disparity" in prods
            if exists != present or (f"{side}_validity_mask" in prods) != present:
                ctx.violation("C19/product-files-presence", f"{side}: files exist={exists}, products present={present} {tag}")
                continue
            if not present:
                continue
            arr, prof, _ = prods[f"{side}_disparity"]
            if prof["dtype"] != "float32" or arr.shape[0] != 1 or not np.array_equal(arr[0], ds["disparity_map"].data, equal_nan=True):
                ctx.violation("C19/disparity-raster-differs", f"{side} dtype={prof['dtype']} {tag}")
            arr, prof, _ = prods[f"{side}_validity_mask"]
            if prof["dtype"] != "uint16" or not np.array_equal(arr[0], ds["validity_mask"].data):
                ctx.violation("C19/validity-mask-raster-differs", f"{side} dtype={prof['dtype']} {tag}")
            has_conf = "confidence_measure" in ds
            if has_conf != (f"{side}_confidence_measure" in prods):
                ctx.violation("C19/confidence-file-presence", f"{side}: bands in memory={has_conf} {tag}")
            elif has_conf:
                arr, prof, desc = prods[f"{side}_confidence_measure"]
                ind = [str(x) for x in ds.coords["indicator"].data]
                if list(desc) != ind:
                    ctx.violation("C19/confidence-band-names-differ", f"{side}: {desc} vs {ind} {tag}")
                mem = np.moveaxis(ds["confidence_measure"].data, 2, 0)
                if arr.shape != mem.shape or not np.array_equal(arr, mem.astype(np.float32), equal_nan=True):
                    ctx.violation("C19/confidence-raster-differs", f"{side} {tag}")
            for key in (f"{side}_disparity", f"{side}_validity_mask", f"{side}_confidence_measure"):
                if key not in prods:
                    continue
                prof = prods[key][1]
                in_profile = in_profiles[side]  # each side's products carry that side's input georeferencing
                if p["georef"]:
                    if prof.get("crs") != in_profile.get("crs") or prof.get("transform") != in_profile.get("transform"):
                        ctx.violation("C19/georeferencing-differs", f"{key}: {prof.get('crs')} {prof.get('transform')} {tag}")
                elif prof.get("crs") is not None:
                    ctx.violation("C19/georeferencing-invented", f"{key}: {prof.get('crs')} {tag}")
        # ---- the console entry point (`pandora <config> <output_dir>`), in a process of its own: same files
        if p.get("cli"):
            import subprocess
            import sys

            from .. import env as _env

            out3 = os.path.join(d, "out3")
            r3 = subprocess.run([sys.executable, "-m", "pbt.clirun", cfg_path, out3], env=_env.base_env(), cwd=_env.VERIF_DIR,
                                capture_output=True, text=True)
            if r3.returncode != 0:
                ctx.violation("C19/command-line-run-fails", f"exit {r3.returncode}: {r3.stderr[-300:]} {tag}")
            else:
                prods3 = read_products(out3)
                if set(prods3) != set(prods):
                    ctx.violation("C19/command-line-products-presence", f"{sorted(prods3)} vs {sorted(prods)} {tag}")
                else:
                    for k in prods:
                        a3, pr3, de3 = prods3[k]
                        a1, pr1, de1 = prods[k]
                        if (not np.array_equal(a1, a3, equal_nan=True) or de1 != de3 or pr1.get("dtype") != pr3.get("dtype") or
                                pr1.get("crs") != pr3.get("crs") or pr1.get("transform") != pr3.get("transform")):
                            ctx.violation("C19/command-line-raster-differs", f"{k} {tag}")
                try:
                    with open(os.path.join(out1, "cfg", "config.json")) as f1, open(os.path.join(out3, "cfg", "config.json")) as f3:
                        c1, c3 = json.load(f1), json.load(f3)
                    if not same(c1, c3):
                        ctx.violation("C19/command-line-saved-configuration-differs", tag)
                except Exception as exc:  # noqa: BLE001
                    ctx.violation("C19/saved-configuration-not-loadable", f"(command line) {type(exc).__name__}: {str(exc)[:100]} {tag}")
        # ---- saved configuration
        saved_path = os.path.join(out1, "cfg", "config.json")
        try:
            with open(saved_path) as f:
                saved = json.load(f)
        except Exception as exc:  # noqa: BLE001
            ctx.violation("C19/saved-configuration-not-loadable", f"{type(exc).__name__}: {str(exc)[:100]} {tag}")
            ctx.case(p, False)
            return
        m = PandoraMachine()
        completed = json.loads(json.dumps(check_conf(copy.deepcopy(user), m)))
        margins = m.margins.to_dict()
        if "margins" not in saved or not same(saved["margins"], margins):
            ctx.violation("C19/saved-margins-differ", f"{saved.get('margins')} vs {margins} {tag}")
        # ... and they are the documented margins of the pipeline (restated independently in C20's reference)
        from . import c20

        exp_m = c20.expected_margins(p["pipeline"], (H, W))[0]
        if saved.get("margins") != exp_m:
            ctx.violation("C19/saved-margins-not-the-pipeline-margins", f"config.json holds {saved.get('margins')}, expected {exp_m} {tag}")
        # the internal 'indicator' key of confidence steps is rewritten by the run (suffix of the step name): not judged
        for sec_cfg in (saved.get("pipeline", {}), completed["pipeline"]):
            for step_cfg in sec_cfg.values():
                if isinstance(step_cfg, dict):
                    step_cfg.pop("indicator", None)
        for sec in ("input", "pipeline"):
            if not same(saved.get(sec), completed[sec]):
                diff = {k: (saved[sec].get(k), completed[sec].get(k)) for k in set(saved.get(sec, {})) | set(completed[sec])
                        if not same(saved.get(sec, {}).get(k), completed[sec].get(k))}
                sig = "C19/saved-configuration-carries-derived-right-disparity" if (
                    sec == "input" and set(diff) == {"right"} and completed["input"]["right"]["disp"] is None and
                    saved["input"]["right"].get("disp") is not None) else f"C19/saved-{sec}-section-differs"
                ctx.violation(sig, f"{diff} {tag}")
        # ---- replay of the saved configuration
        out2 = os.path.join(d, "out2")
        try:
            pandora.main(saved_path, out2, False)
        except Exception as exc:  # noqa: BLE001
            ctx.violation("C19/saved-configuration-rejected-on-replay", f"{type(exc).__name__}: {str(exc)[:200]} {tag}")
            ctx.case(p, False)
            return
        prods2 = read_products(out2)
        if set(prods2) != set(prods):
            ctx.violation("C19/replay-products-presence", f"{sorted(prods2)} vs {sorted(prods)} {tag}")
        else:
            for k in prods:
                if not np.array_equal(prods[k][0], prods2[k][0], equal_nan=True) or prods[k][2] != prods2[k][2]:
                    ctx.violation("C19/replay-raster-differs", f"{k} {tag}")
    lm = captured["left"]["validity_mask"].data
    classes = ["grid" if p["grid"] else "interval"]
    if has_val:
        classes.append("validation")
    if p["georef"]:
        classes.append("georef")
        if p.get("georef_right") and has_val:
            classes.append("right-image-own-footprint")
        if p.get("crs") == "local":
            classes.append("crs-without-epsg-code")
    if any(c.get("invalid_disparity") == "NaN" for _, c in p["pipeline"]):
        classes.append("invalid=NaN")
    if p.get("cli"):
        classes.append("console-entry-point")
    ctx.judged += 1
    ctx.case(p, nontrivial=bool("confidence_measure" in captured["left"] and ((lm & 0b1111000011) != 0).any()), classes=classes)


CHECKS = [
    Check("main", body, strategy=cases, budget={"quick": (16, 8), "thorough": (16, 200)}),
]
