"""C11 — cross-based aggregation averages costs over the combined support region.

Direct calls of `cost_volume_aggregation(left, right, cv)` on generated mono-band pairs and cost volumes, compared
with a naive region-enumeration reference (pbt/ref/cbca.py)."""
from __future__ import annotations

import numpy as np
from hypothesis import strategies as st

from .. import build, gen
from ..core import Check, Ctx
from ..ref import cbca as ref

ID = "C11"
RULE = (
    "Hypothesis-generated mono-band pairs (window offset 0-2, inner size 1-8 x 2-10, integer radiometry 0..3 or 0..40, "
    "sparse masks with no-data and invalid pixels, default or user mask convention), integer cost volumes with NaN "
    "cells (always NaN where the right correspondent is outside, as the matching-cost step delivers), disparity planes "
    "on an integer, 1/2 or 1/4 axis, cbca_distance 1-6, cbca_intensity in {0.5, 2, 5, 30}. Non-trivial = at least one "
    "aggregated pixel whose region has >= 5 pixels and at least one arm cut short by a mask, an intensity jump or the "
    "image edge; distinct = distinct canonical payload."
)
ASSUMPTIONS = [
    "arms are shorter than cbca_distance (the convention pinned by the repository's own unit tests)",
    "costs whose right correspondent lies outside the (cropped) right image are NaN on input",
    "float32 accumulation: relative tolerance 1e-5",
    "images are at least 3x3 (4 columns with sub-pixel planes): the step's own 3x3 median needs it",
]


@st.composite
def cases(draw):
    off = draw(st.sampled_from([0, 0, 1, 1, 2]))
    sub = draw(st.sampled_from([1, 1, 2, 4]))
    # the step filters both images with a 3x3 median first: images (and the half-pixel shifted right image, one
    # column narrower) are at least 3x3
    h = draw(st.integers(max(1, 3 - 2 * off), 8))
    w = draw(st.integers(max(2, (4 if sub > 1 else 3) - 2 * off), 10))
    H, W = h + 2 * off, w + 2 * off
    hi = draw(st.sampled_from([3, 3, 40]))
    px = st.integers(0, hi)
    L = draw(st.lists(st.lists(px, min_size=W, max_size=W), min_size=H, max_size=H))
    R = draw(st.lists(st.lists(px, min_size=W, max_size=W), min_size=H, max_size=H))
    d0 = draw(st.integers(-3, 2))
    nd = draw(st.integers(1, 5))
    disps = [d0 + k / sub for k in range(nd)] if sub != 1 else [d0 + k for k in range(nd)]
    cell = st.one_of(st.integers(0, 9), st.integers(0, 9), st.integers(0, 9), st.just("NaN"))
    cv = draw(st.lists(st.lists(st.lists(cell, min_size=nd, max_size=nd), min_size=w, max_size=w),
                       min_size=h, max_size=h))
    conv = draw(st.sampled_from([(0, 1), (0, 1), (5, 7)]))
    return {"H": H, "W": W, "off": off, "L": L, "R": R, "sub": sub, "disps": disps, "cv": cv,
            "mask_left": draw(gen.sparse_mask(H, W)), "mask_right": draw(gen.sparse_mask(H, W)),
            "valid": conv[0], "nodata": conv[1],
            # each image dataset announces its own mask convention: the right one may differ from the left one
            "conv_right": draw(st.sampled_from([None, None, [1, 0], [0, 255], [2, 1]])),
            "dist": draw(st.integers(1, 6)), "inten": draw(st.sampled_from([0.5, 2.0, 5.0, 30.0])),
            "plane": draw(st.integers(0, nd - 1)), "type": draw(st.sampled_from(["min", "max"]))}


def body(ctx: Ctx, p: dict) -> None:
    from pandora import aggregation

    H, W, off, sub = p["H"], p["W"], p["off"], p["sub"]
    L = np.array(p["L"], dtype=np.float32)
    R = np.array(p["R"], dtype=np.float32)
    ML = gen._mask(p["mask_left"], H, W, p["valid"], p["nodata"])
    vr, nr = p.get("conv_right") or (p["valid"], p["nodata"])
    MR = gen._mask(p["mask_right"], H, W, vr, nr)
    disps = p["disps"]
    inner = build.arr(p["cv"])
    h, w, nd = inner.shape
    # costs whose correspondent is outside the cropped right image are NaN (what matching cost delivers)
    for di, d in enumerate(disps):
        wr = w if (d % 1) == 0 else w - 1
        for c in range(w):
            if c + d < 0 or c + d >= wr:
                inner[:, c, di] = np.nan
    cv = np.full((H, W, nd), np.nan, dtype=np.float32)
    cv[off:H - off, off:W - off] = inner
    vm = np.zeros((H, W), dtype=np.uint16)
    if off:
        vm[:] = 1
        vm[off:-off, off:-off] = 0

    def run(cv_np, dlist):
        l = build.image_dataset(L, ML, (int(np.floor(disps[0])), int(np.ceil(disps[-1]))), p["valid"], p["nodata"])
        r = build.image_dataset(R, MR, None, vr, nr)
        cvds = build.cost_volume_dataset(cv_np, dlist, p["type"], off, sub, vm)
        lb, rb, cb = build.snapshot(l), build.snapshot(r), build.snapshot(cvds)
        agg = aggregation.AbstractAggregation(aggregation_method="cbca", cbca_distance=p["dist"],
                                              cbca_intensity=p["inten"])
        agg.cost_volume_aggregation(l, r, cvds)
        if build.snapshot_diff(lb, build.snapshot(l)) or build.snapshot_diff(rb, build.snapshot(r)):
            ctx.violation("C11/input-image-modified", "aggregation modified an input image dataset")
        d = [x for x in build.snapshot_diff(cb, build.snapshot(cvds))
             if x not in ("var.cost_volume", "attr.aggregation", "attr.cmax")]
        if d:
            ctx.violation("C11/other-parts-modified", f"{d}")
        return cvds["cost_volume"].data

    got = run(cv, disps)
    exp, big, cut = ref.aggregate(L, R, ML, MR, cv, disps, off, sub, p["dist"], p["inten"], p["valid"], vr)
    nan_in = np.isnan(cv)
    nan_out = np.isnan(got)
    if (nan_in != nan_out).any():
        r, c, k = np.argwhere(nan_in != nan_out)[0]
        sig = "C11/nan-cost-became-finite" if nan_in[r, c, k] else "C11/finite-cost-became-nan"
        ctx.violation(sig, f"cell {(int(r), int(c), int(k))} in={cv[r, c, k]} out={got[r, c, k]}")
    fin = ~nan_in & ~nan_out
    bad = fin & (np.abs(got - exp) > 1e-5 * np.maximum(1.0, np.abs(exp)))
    if bad.any():
        r, c, k = np.argwhere(bad)[0]
        masked_near = (ML is not None and (ML != p["valid"]).any()) or (MR is not None and (MR != vr).any())
        sig = "C11/distance-1-min-arm-ignores-mask" if (p["dist"] == 1 and masked_near) else "C11/not-region-average"
        ctx.violation(sig, f"cell {(int(r), int(c), int(k))} d={disps[k]} got {got[r, c, k]} expected {exp[r, c, k]} "
                           f"dist={p['dist']} inten={p['inten']} off={off} sub={sub} ({int(bad.sum())} cells differ)")
    ctx.judged += int(fin.sum())
    # plane independence: the same plane aggregated alone
    k = p["plane"]
    alone = run(cv[:, :, k:k + 1].copy(), [disps[k]])
    if not np.array_equal(alone[:, :, 0], got[:, :, k], equal_nan=True):
        ctx.violation("C11/planes-not-independent", f"plane {k} (d={disps[k]}) differs when aggregated alone")
    classes = [f"dist{p['dist']}", f"sub{sub}", f"off{off}"]
    if ML is not None or MR is not None:
        classes.append("masked")
    if MR is not None and p.get("conv_right") and (vr, nr) != (p["valid"], p["nodata"]):
        classes.append("right-mask-own-convention")
    ctx.case(p, nontrivial=bool(big and cut), classes=classes)


# ---------------------------------------------------------------------------------------------------------------
# support regions of tens of thousands of pixels: on a smooth pair every region is as large as the arms allow, and the mean of
# a constant cost over ANY region is that constant (no reference loop needed)
# ---------------------------------------------------------------------------------------------------------------
def enumerate_big(tier, shard, nshards):
    sizes = [(190, 200, 100), (200, 185, 128)] if tier == "quick" else [(190, 200, 100), (200, 185, 128), (260, 262, 130), (186, 186, 92)]
    for k, (H, W, dist) in enumerate(sizes):
        if k % nshards == shard:
            yield {"H": H, "W": W, "dist": dist, "cost": [2.0, 0.5][k % 2], "nd": 2}


def big_body(ctx: Ctx, p: dict) -> None:
    from pandora import aggregation

    H, W, nd = p["H"], p["W"], p["nd"]
    img = np.full((H, W), 100.0, dtype=np.float32)
    img[::7, ::5] += 1.0  # smooth, not constant: every difference stays far below cbca_intensity
    cv = np.full((H, W, nd), p["cost"], dtype=np.float32)
    l = build.image_dataset(img, None, (0, nd - 1))
    r = build.image_dataset(img, None, None)
    cvds = build.cost_volume_dataset(cv, list(range(nd)), "min", 0, 1, np.zeros((H, W), dtype=np.uint16))
    for d in range(1, nd):
        cvds["cost_volume"].data[:, W - d:, d] = np.nan
    nan_in = np.isnan(cvds["cost_volume"].data)
    agg = aggregation.AbstractAggregation(aggregation_method="cbca", cbca_distance=p["dist"], cbca_intensity=50.0)
    agg.cost_volume_aggregation(l, r, cvds)
    got = cvds["cost_volume"].data
    if (np.isnan(got) != nan_in).any():
        ctx.violation("C11/finite-cost-became-nan", f"large regions: NaN pattern changed {p}")
    bad = ~nan_in & (np.abs(got - p["cost"]) > 1e-4)
    if bad.any():
        r_, c_, k_ = np.argwhere(bad)[0]
        ctx.violation("C11/not-region-average", f"large regions (up to {(2 * p['dist'] - 1) ** 2} pixels): cell {(int(r_), int(c_), int(k_))} "
                                                f"got {got[r_, c_, k_]}, every cost of the region is {p['cost']} ({int(bad.sum())} cells) {p}")
    ctx.judged += int((~nan_in).sum())
    ctx.case(p, nontrivial=True, classes=["region>32767px"])



# ---------------------------------------------------------------------------------------------------------------
# the step inside a pipeline: both cost volumes (the right-reference one exists with cross-checking) are aggregated
# over the regions of THEIR reference / secondary images
# ---------------------------------------------------------------------------------------------------------------
@st.composite
def pipeline_cases(draw):
    # radiometry <= 19: every cost and every partial sum of a plane is an integer (or a multiple of 1/4) below 2^22, so
    # the float32 integral images of the step are exact and the comparison needs no radiometry-dependent tolerance
    pair = draw(gen.image_pair(min_rows=5, max_rows=9, min_cols=7, max_cols=12, max_val=19, masks=True,
                               conventions="per-image"))
    w = draw(st.sampled_from([1, 1, 3]))
    a = draw(st.integers(-3, 1))
    return {"pair": pair, "w": w, "measure": draw(st.sampled_from(["sad", "ssd"])), "sub": draw(st.sampled_from([1, 1, 2])),
            "dist": draw(st.integers(1, 4)), "inten": draw(st.sampled_from([2.0, 5.0, 12.0, 50.0])),
            "disp": [a, a + draw(st.integers(1, 3))], "validation": draw(st.integers(0, 3)) > 0}


def pipeline_body(ctx: Ctx, p: dict) -> None:
    from .. import drive

    left, right, ml, mr = gen.materialise_pair(p["pair"])
    H, W = left.shape
    mlc = gen._mask(p["pair"].get("mask_left"), H, W, 0, 1)
    mrc = gen._mask(p["pair"].get("mask_right"), H, W, 0, 1)
    steps = [["matching_cost", {"matching_cost_method": p["measure"], "window_size": p["w"], "subpix": p["sub"]}],
             ["aggregation", {"aggregation_method": "cbca", "cbca_distance": p["dist"], "cbca_intensity": p["inten"]}],
             ["disparity", {"disparity_method": "wta"}]]
    if p["validation"]:
        steps.append(["validation", {"validation_method": "cross_checking_accurate"}])
    snap = {}

    def grab(when):
        def f(machine, step, kind):
            if kind != "aggregation":
                return
            for side, cv in (("left", machine.left_cv), ("right", machine.right_cv)):
                if cv is not None and "cost_volume" in cv:
                    snap[(when, side)] = (cv["cost_volume"].data.copy(), [float(d) for d in cv.coords["disp"].data],
                                          int(cv.attrs["offset_row_col"]), int(cv.attrs["subpixel"]))
        return f

    drive.run_pipeline(left, right, gen.pipe_dict(steps), tuple(p["disp"]), msk_left=ml, msk_right=mr,
                       spy=drive.Spy(before=grab("before"), after=grab("after")), **gen.conv_kwargs(p["pair"]))
    big_total = 0
    for side, (A, B, MA, MB) in (("left", (left, right, mlc, mrc)), ("right", (right, left, mrc, mlc))):
        if ("before", side) not in snap:
            if side == "left" or p["validation"]:
                ctx.violation("C11/volume-not-aggregated", f"{side} cost volume missing at the aggregation step")
            continue
        cv, disps, off, sub = snap[("before", side)]
        got = snap[("after", side)][0]
        exp, big, cut = ref.aggregate(A.astype(np.float32), B.astype(np.float32), MA, MB, cv, disps, off, sub, p["dist"], p["inten"], 0, 0)
        big_total += big if cut else 0
        nan_in, nan_out = np.isnan(cv), np.isnan(got)
        if (nan_in != nan_out).any():
            r, c, k = np.argwhere(nan_in != nan_out)[0]
            ctx.violation("C11/nan-cost-became-finite" if nan_in[r, c, k] else "C11/finite-cost-became-nan",
                          f"{side} volume in a pipeline, cell {(int(r), int(c), int(k))}")
        fin = ~nan_in & ~nan_out
        bad = fin & (np.abs(got - exp) > 1e-5 * np.maximum(1.0, np.abs(exp)))
        if bad.any():
            r, c, k = np.argwhere(bad)[0]
            ctx.violation("C11/not-region-average", f"{side} volume of a pipeline (reference image = {side}): cell "
                                                    f"{(int(r), int(c), int(k))} d={disps[k]} got {got[r, c, k]} expected "
                                                    f"{exp[r, c, k]} dist={p['dist']} inten={p['inten']} w={p['w']} sub={sub} "
                                                    f"({int(bad.sum())} cells differ)")
        ctx.judged += int(fin.sum())
    ctx.case(p, nontrivial=bool(big_total), classes=["pipeline"] + (["right-reference-volume"] if p["validation"] else []))


CHECKS = [
    Check("big-regions", big_body, enumerate=enumerate_big, exhaustive=True, budget={"quick": (2, 0), "thorough": (4, 0)}),
    Check("pipeline", pipeline_body, strategy=pipeline_cases, budget={"quick": (8, 20), "thorough": (16, 400)}),
    Check("direct", body, strategy=cases, budget={"quick": (16, 60), "thorough": (16, 2000)}),
]
