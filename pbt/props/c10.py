"""C10 — filters change only valid pixels, to an average of their valid neighbours.

Direct calls of `AbstractFilter(cfg=..., image_shape=..., step=1).filter_disparity(ds)` on generated disparity
datasets, compared with loop-per-pixel references (explicit window placement, no strides, no blocks)."""
from __future__ import annotations

import math

import numpy as np
from hypothesis import strategies as st

from .. import build
from ..core import Check, Ctx

ID = "C10"
RULE = (
    "Hypothesis-generated disparity datasets: sizes from {filter..12} and, tile-constructed, {49,50,51,99,100,101,149,"
    "150,151} and 100k + filter_size + {-1,0,1} for k = 1, 2; disparities on a 1/4 grid or arbitrary float32; invalid pixels anywhere (NaN or -9999 plus an invalid "
    "bit incl. 8/9); odd filter_size 1-9 (median, median_for_intervals), sigma_space/sigma_color in [0.3,20] "
    "(bilateral); interval bands with NaN on invalid pixels and regularisation on/off for median_for_intervals. "
    "Non-trivial = at least one valid pixel whose window contains an invalid pixel and at least one pixel whose value "
    "changed; distinct = distinct canonical payload. Pipeline twin: the datasets handed to every median / bilateral step of "
    "generated legal pipelines (after refinement, validation, filling; left and right) judged by the same references."
)
ASSUMPTIONS = [
    "the image is at least as large as the filter window (every caller guarantees it)",
    "valid pixels carry finite disparities",
    "bilateral windows of even width (int(3*sigma_space+1) or the image size even): which side gets the extra row / column "
    "is not documented, so the result must equal the weighted mean - spatial weights centred on the pixel itself - of ONE "
    "of the four placements of the window that contain the pixel (direct check; the pipeline twin leaves them unjudged)",
    "median_for_intervals: bound bands are NaN exactly on invalid pixels (what interval_bounds delivers before "
    "validation); with regularisation on, only mask/disparity clauses are judged",
]

INV = 0b01111000011
BIG = [49, 50, 51, 99, 100, 101, 149, 150, 151]
INVALID_FLAGS = [1, 2, 64, 128, 66, 256, 512, 130]
INFO_FLAGS = [0, 0, 0, 4, 8, 16, 32, 12, 2048]


@st.composite
def cases(draw):
    method = draw(st.sampled_from(["median", "median", "bilateral", "bilateral", "median_for_intervals"]))
    big = draw(st.integers(0, 11)) == 0
    if method == "bilateral":
        sig_s = draw(st.one_of(st.sampled_from([0.3, 0.5, 0.7, 1.0, 1.4, 2.0]), st.floats(0.3, 3.0).map(lambda x: round(x, 3))))
        if not big and draw(st.integers(0, 9)) == 0:
            sig_s = draw(st.floats(3.0, 20.0).map(lambda x: round(x, 3)))
        sig_c = draw(st.one_of(st.sampled_from([0.3, 1.0, 2.0, 20.0]), st.floats(0.3, 20.0).map(lambda x: round(x, 3))))
        fs = None
        need = 1
    else:
        fs = draw(st.sampled_from([1, 3, 3, 5, 7, 9]))
        sig_s = sig_c = None
        need = fs
    ty = draw(st.integers(1, 7))
    tx = draw(st.integers(1, 7))
    if big:
        # around the 100-pixel processing blocks, also counted from the first complete window (100*k + filter_size)
        edge = [100 * k + need + e for k in (1, 2) for e in (-1, 0, 1)]
        ny = draw(st.sampled_from(BIG + edge + [need + 3]))
        nx = draw(st.sampled_from(BIG + edge + [need + 3] * (3 if ny > 160 else 1)))
    else:
        ny = draw(st.integers(need, 12))
        nx = draw(st.integers(need, 12))
        ty, tx = ny, nx
    quant = draw(st.booleans())
    val = st.integers(-32, 32).map(lambda k: k / 4) if quant else st.floats(-8, 8, width=32)
    cell = st.one_of(val, val, val, st.none())
    tile = draw(st.lists(st.lists(cell, min_size=tx, max_size=tx), min_size=ty, max_size=ty))
    npatch = draw(st.integers(0, 6)) if big else 0
    patches = [[draw(st.integers(0, ny - 1)), draw(st.integers(0, nx - 1)), draw(cell)] for _ in range(npatch)]
    p = {
        "method": method, "ny": ny, "nx": nx, "tile": tile, "patches": patches,
        # what invalid pixels hold: NaN, the usual sentinel, or a finite value close to the valid disparities (any
        # invalid_disparity may be configured): it must never enter a median or a weighted mean
        "invalid_value": draw(st.sampled_from(["NaN", -9999, -9999, 0, 3.5, -2.25])),
        "float64": draw(st.integers(0, 5)) == 0,
        # memory layout of the map the caller hands over: row-major, column-major, or a transposed view
        "layout": draw(st.sampled_from(["C", "C", "F", "T"])),
        "flagseed": draw(st.integers(0, 1000)),
    }
    if method == "bilateral":
        p["sigma_space"], p["sigma_color"] = sig_s, sig_c
    else:
        p["filter_size"] = fs
    if method == "median_for_intervals":
        p["regularization"] = draw(st.booleans())
        p["width"] = draw(st.lists(st.integers(0, 3), min_size=4, max_size=4))
        p["suffix"] = draw(st.sampled_from(["", "x"]))
        # the ambiguity band is named by its own indicator, which need not be the interval one
        p["suffix_amb"] = draw(st.sampled_from(["same", "same", "", "y"]))
    return p


def materialise(p):
    ny, nx = p["ny"], p["nx"]
    tile = p["tile"]
    ty, tx = len(tile), len(tile[0])
    vals = np.array([[np.nan if v is None else v for v in row] for row in tile], dtype=np.float32)
    isinv = np.array([[v is None for v in row] for row in tile])
    reps = (math.ceil(ny / ty), math.ceil(nx / tx))
    d = np.tile(vals, reps)[:ny, :nx].copy()
    inv = np.tile(isinv, reps)[:ny, :nx].copy()
    for r, c, v in p["patches"]:
        d[r, c] = np.nan if v is None else v
        inv[r, c] = v is None
    k = (np.arange(ny)[:, None] * 5 + np.arange(nx)[None, :] * 3 + p["flagseed"])
    mask = np.where(inv, np.array(INVALID_FLAGS, dtype=np.uint16)[k % len(INVALID_FLAGS)],
                    np.array(INFO_FLAGS, dtype=np.uint16)[k % len(INFO_FLAGS)]).astype(np.uint16)
    invv = np.float32(np.nan) if p["invalid_value"] == "NaN" else np.float32(p["invalid_value"])
    d[inv] = invv
    return d, mask, inv


def ref_median(masked: np.ndarray, fs: int) -> np.ndarray:
    """masked: float32 with NaN on invalid pixels.  NaN pixels stay NaN; pixels whose window does not fit are kept."""
    ny, nx = masked.shape
    out = masked.copy()
    r = fs // 2
    for i in range(r, ny - r):
        for j in range(r, nx - r):
            if np.isnan(masked[i, j]):
                continue
            w = masked[i - r:i + r + 1, j - r:j + r + 1].ravel()
            w = np.sort(w[~np.isnan(w)])
            n = len(w)
            out[i, j] = w[n // 2] if n % 2 else np.float32((np.float64(w[n // 2 - 1]) + np.float64(w[n // 2])) / 2)
    return out


def close(a, b, rel=1e-6, abs_=1e-6):
    return (np.isnan(a) & np.isnan(b)) | (np.abs(a.astype(np.float64) - b.astype(np.float64)) <= abs_ + rel * np.abs(b))


def body(ctx: Ctx, p: dict) -> None:
    from pandora import filter as pfilter

    d, mask, inv = materialise(p)
    ny, nx = d.shape
    method = p["method"]
    conf = None
    if method == "median_for_intervals":
        sfx = ("." + p["suffix"]) if p["suffix"] else ""
        w = p["width"]
        base = np.where(inv, np.nan, d).astype(np.float32)
        lo = base - np.float32(w[0]) - (np.arange(nx)[None, :] % (w[1] + 1)).astype(np.float32)
        hi = base + np.float32(w[2]) + (np.arange(ny)[:, None] % (w[3] + 1)).astype(np.float32)
        amb = (((np.arange(ny)[:, None] * 3 + np.arange(nx)[None, :]) % 7) / 7.0).astype(np.float32)
        amb_ind = p["suffix"] if p.get("suffix_amb", "same") == "same" else p["suffix_amb"]
        sfx_a = ("." + amb_ind) if amb_ind else ""
        conf = {
            "confidence_from_ambiguity" + sfx_a: amb,
            "confidence_from_interval_bounds_inf" + sfx: lo,
            "confidence_from_interval_bounds_sup" + sfx: hi,
        }
        decoys = {}
        if sfx:
            # bands of another interval step (no suffix): not the ones the filter was pointed at
            decoys = {"confidence_from_interval_bounds_inf": lo - np.float32(50), "confidence_from_interval_bounds_sup": hi + np.float32(50)}
            conf.update(decoys)
        cfg = {"filter_method": method, "filter_size": p["filter_size"], "regularization": p["regularization"],
               "interval_indicator": p["suffix"], "ambiguity_indicator": amb_ind}
    elif method == "median":
        cfg = {"filter_method": method, "filter_size": p["filter_size"]}
    else:
        cfg = {"filter_method": method, "sigma_space": float(p["sigma_space"]), "sigma_color": float(p["sigma_color"])}
    ds = build.disparity_dataset(d, mask, -8, 8, 0, conf)
    if p.get("float64"):
        # a map the caller built or loaded in double precision
        ds["disparity_map"] = ds["disparity_map"].astype(np.float64)
    if p.get("layout", "C") == "F":
        ds["disparity_map"].data = np.asfortranarray(ds["disparity_map"].data)
    elif p.get("layout") == "T":
        ds["disparity_map"].data = np.ascontiguousarray(ds["disparity_map"].data.T).T
    before = build.snapshot(ds)
    flt = pfilter.AbstractFilter(cfg=dict(cfg), image_shape=(ny, nx), step=1)
    flt.filter_disparity(ds)
    got = ds["disparity_map"].data
    gmask = ds["validity_mask"].data

    # ---- clauses common to every filter
    allowed_mask_change = 2048 if (method == "median_for_intervals" and p["regularization"]) else 0
    diffm = gmask.astype(int) ^ mask.astype(int)
    if (diffm & ~allowed_mask_change).any() or ((gmask & mask) != mask).any():
        r, c = np.argwhere((diffm & ~allowed_mask_change) != 0)[0] if (diffm & ~allowed_mask_change).any() else (0, 0)
        ctx.violation("C10/validity-mask-changed", f"{method}: mask {int(mask[r, c])}->{int(gmask[r, c])} at {(int(r), int(c))}")
    same = (got == d) | (np.isnan(got) & np.isnan(d))
    if not same[inv].all():
        ctx.violation("C10/invalid-pixel-disparity-changed", f"{method}")
    if allowed_mask_change:
        # the same step once more on its own output ('filter' + 'filter.1'): bit 11 is a flag, not a counter
        twice = ds.copy(deep=True)
        pfilter.AbstractFilter(cfg=dict(cfg), image_shape=(ny, nx), step=1).filter_disparity(twice)
        g2 = twice["validity_mask"].data.astype(int)
        if ((g2 ^ mask.astype(int)) & ~allowed_mask_change).any() or ((g2 & gmask) != gmask).any():
            r, c = np.argwhere(((g2 ^ mask.astype(int)) & ~allowed_mask_change) | ((g2 & gmask) ^ gmask))[0]
            ctx.violation("C10/validity-mask-changed", f"{method} applied twice: mask {int(mask[r, c])}->{int(gmask[r, c])}->"
                                                       f"{int(g2[r, c])} at {(int(r), int(c))}")
    masked = np.where(inv, np.nan, d).astype(np.float32)
    changed = False
    has_inv_in_window = False

    if method == "median_for_intervals":
        if not same.all():
            ctx.violation("C10/intervals-filter-changed-disparity", "median_for_intervals must not touch disparity_map")
        if not p["regularization"]:
            for name, band in (("inf", lo), ("sup", hi)):
                exp = ref_median(band, p["filter_size"])
                g = ds["confidence_measure"].sel(indicator=f"confidence_from_interval_bounds_{name}{sfx}").data
                ok = close(g, exp)
                if not ok.all():
                    r, c = np.argwhere(~ok)[0]
                    edge = min(r, c, ny - 1 - r, nx - 1 - c) < p["filter_size"] // 2
                    sig = "C10/intervals-edge-pixel-changed" if edge else "C10/intervals-median-wrong"
                    ctx.violation(sig, f"band {name} at {(int(r), int(c))}: got {g[r, c]} expected {exp[r, c]} "
                                       f"fs={p['filter_size']} shape={(ny, nx)}")
                changed = changed or bool((~close(exp, band)).any())
            g = ds["confidence_measure"].sel(indicator="confidence_from_ambiguity" + sfx_a).data
            if not np.array_equal(g, amb, equal_nan=True):
                ctx.violation("C10/other-band-changed", "ambiguity band modified by median_for_intervals")
        for dname, dband in decoys.items():
            g = ds["confidence_measure"].sel(indicator=dname).data
            if not np.array_equal(g, dband, equal_nan=True):
                ctx.violation("C10/other-band-changed", f"{dname} (not the band named by interval_indicator={p['suffix']!r}) modified")
        rr = p["filter_size"] // 2
    elif method == "median":
        fs = p["filter_size"]
        exp = ref_median(masked, fs)
        exp = np.where(inv, d, exp)
        ok = close(got, exp)
        if not ok.all():
            r, c = np.argwhere(~ok)[0]
            edge = min(r, c, ny - 1 - r, nx - 1 - c) < fs // 2
            sig = "C10/edge-pixel-changed" if edge else "C10/median-wrong"
            ctx.violation(sig, f"pixel {(int(r), int(c))} got {got[r, c]} expected {exp[r, c]} fs={fs} shape={(ny, nx)} "
                               f"({int((~ok).sum())} pixels differ)")
        changed = bool((~close(exp, d)).any())
        rr = fs // 2
    else:
        ss, sc = float(p["sigma_space"]), float(p["sigma_color"])
        win = min(ny, nx, int(3 * ss + 1))
        off = win // 2
        rr = off
        odd = win % 2 == 1
        for i in range(ny):
            for j in range(nx):
                if inv[i, j]:
                    continue
                fits_odd = i - off >= 0 and j - off >= 0 and i + off < ny and j + off < nx
                if not fits_odd:
                    # closer to the edge than the radius (for even windows: enclosing odd window does not fit)
                    if odd or not (i - off >= 0 and j - off >= 0 and i - off + win <= ny and j - off + win <= nx):
                        if not same[i, j]:
                            ctx.violation("C10/edge-pixel-changed", f"bilateral pixel {(i, j)} win={win} shape={(ny, nx)} "
                                                                    f"{d[i, j]}->{got[i, j]}")
                        continue
                    lo_i, hi_i, lo_j, hi_j = max(0, i - off), min(ny, i + off + 1), max(0, j - off), min(nx, j + off + 1)
                else:
                    lo_i, hi_i, lo_j, hi_j = i - off, i + off + 1, j - off, j + off + 1
                w = masked[lo_i:hi_i, lo_j:hi_j].astype(np.float64)
                fin = ~np.isnan(w)
                wmin, wmax = w[fin].min(), w[fin].max()
                g = float(got[i, j])
                tol = 1e-5 * max(1.0, abs(wmin), abs(wmax))
                if not (wmin - tol <= g <= wmax + tol):
                    ctx.violation("C10/bilateral-outside-window-range",
                                  f"pixel {(i, j)} got {g} window valid range [{wmin},{wmax}] win={win}")
                if odd:
                    ii, jj = np.mgrid[lo_i:hi_i, lo_j:hi_j]
                    ws = np.exp(-0.5 * (((ii - i) ** 2 + (jj - j) ** 2) / ss ** 2))
                    wc = np.exp(-0.5 * ((w - w[i - lo_i, j - lo_j]) / sc) ** 2)
                    wt = np.where(fin, ws * wc, 0.0)
                    e = float((wt * np.where(fin, w, 0.0)).sum() / wt.sum())
                    if abs(g - e) > 1e-5 * max(1.0, abs(e)) + 1e-5:
                        ctx.violation("C10/bilateral-wrong", f"pixel {(i, j)} got {g} expected {e} win={win} "
                                                             f"sigma=({ss},{sc}) shape={(ny, nx)}")
                    ctx.judged += 1
                else:
                    # even width: the window has one more row / column on one side (which side is not documented); whatever
                    # the placement, the spatial weights are Gaussian in the distance to the pixel ITSELF
                    cands = []
                    for r0 in (i - off, i - off + 1):
                        for c0 in (j - off, j - off + 1):
                            if r0 < 0 or c0 < 0 or r0 + win > ny or c0 + win > nx or not (r0 <= i < r0 + win and c0 <= j < c0 + win):
                                continue
                            ww = masked[r0:r0 + win, c0:c0 + win].astype(np.float64)
                            ff = ~np.isnan(ww)
                            ii, jj = np.mgrid[r0:r0 + win, c0:c0 + win]
                            ws = np.exp(-0.5 * (((ii - i) ** 2 + (jj - j) ** 2) / ss ** 2))
                            wc = np.exp(-0.5 * ((ww - float(masked[i, j])) / sc) ** 2)
                            wt = np.where(ff, ws * wc, 0.0)
                            cands.append(float((wt * np.where(ff, ww, 0.0)).sum() / wt.sum()))
                    if cands and not any(abs(g - e) <= 1e-5 * max(1.0, abs(e)) + 1e-5 for e in cands):
                        ctx.violation("C10/bilateral-wrong", f"pixel {(i, j)} got {g}, weighted means centred on the pixel for the "
                                                             f"admissible placements of the even window: {cands} win={win} "
                                                             f"sigma=({ss},{sc}) shape={(ny, nx)}")
                    ctx.judged += 1
                if not fin.all():
                    has_inv_in_window = True
                if g != float(d[i, j]):
                    changed = True
    # untouched parts of the dataset
    after = build.snapshot(ds)
    skip = {"var.disparity_map", "var.validity_mask", "attr.filter"}
    if method == "median_for_intervals":
        skip.add("var.confidence_measure")
    dd = [x for x in build.snapshot_diff(before, after) if x not in skip]
    if dd:
        ctx.violation("C10/other-parts-modified", f"{method}: {dd}")

    if method != "bilateral":
        # does some valid pixel have an invalid pixel in its window ?
        if inv.any() and (~inv).any():
            from scipy.ndimage import maximum_filter

            near = maximum_filter(inv.astype(np.uint8), size=2 * rr + 1, mode="constant", cval=0).astype(bool)
            core = np.zeros_like(inv)
            if ny > 2 * rr and nx > 2 * rr:
                core[rr:ny - rr, rr:nx - rr] = True
            has_inv_in_window = bool((near & ~inv & core).any())
        ctx.judged += int((~inv).sum())
    classes = [method]
    if max(ny, nx) >= 49:
        classes.append("crosses-block-boundary")
    if method == "bilateral" and min(ny, nx, int(3 * float(p["sigma_space"]) + 1)) % 2 == 0:
        classes.append("even-bilateral-window")
    if p.get("layout", "C") != "C":
        classes.append("map-not-row-major")
    if method == "median_for_intervals" and p.get("suffix_amb", "same") != "same" and p["suffix_amb"] != p["suffix"]:
        classes.append("interval-and-ambiguity-indicators-differ")
    ctx.case(p, nontrivial=bool(has_inv_in_window and changed), classes=classes)


# ---------------------------------------------------------------------------------------------------------------
# pipeline twin: the disparity datasets a real pipeline hands to its filter steps (left and right)
# ---------------------------------------------------------------------------------------------------------------
def ref_bilateral(masked, ss, sc):
    """odd windows only; pixels whose window does not fit keep their value"""
    ny, nx = masked.shape
    win = min(ny, nx, int(3 * ss + 1))
    off = win // 2
    out = masked.astype(np.float64).copy()
    if win % 2 == 0:
        return None
    ii, jj = np.mgrid[-off:off + 1, -off:off + 1]
    ws = np.exp(-0.5 * ((ii ** 2 + jj ** 2) / ss ** 2))
    for i in range(off, ny - off):
        for j in range(off, nx - off):
            if np.isnan(masked[i, j]):
                continue
            w = masked[i - off:i + off + 1, j - off:j + off + 1].astype(np.float64)
            fin = ~np.isnan(w)
            wt = np.where(fin, ws * np.exp(-0.5 * ((np.where(fin, w, 0) - w[off, off]) / sc) ** 2), 0.0)
            out[i, j] = (wt * np.where(fin, w, 0.0)).sum() / wt.sum()
    return out


@st.composite
def pipeline_cases(draw):
    from .. import gen

    pair = draw(gen.image_pair(min_rows=9, max_rows=14, min_cols=10, max_cols=18, max_val=9, masks=True))
    steps = draw(gen.legal_pipeline(validation="maybe", refinement=True, max_post=5, windows=(1, 3)))
    if not any(n.split(".")[0] == "filter" for n, _ in steps):
        steps.append(["filter.z", draw(gen.filter_cfg())])
    a = draw(st.integers(-4, 1))
    return {"pair": pair, "pipeline": steps, "disp": gen.clamp_interval([a, a + draw(st.integers(0, 4))], pair["W"], steps)}


def pipeline_body(ctx: Ctx, p: dict) -> None:
    from .. import drive, gen

    kw = gen.pair_kwargs(p["pair"])
    pipe = gen.pipe_dict(p["pipeline"])
    caps = []

    def snap(machine):
        out = {}
        for side, dsp in (("left", machine.left_disparity), ("right", machine.right_disparity)):
            if dsp is not None and "disparity_map" in dsp:
                out[side] = (dsp["disparity_map"].data.copy(), dsp["validity_mask"].data.copy())
        return out

    def before(machine, step, kind):
        if kind == "filter":
            caps.append({"step": step, "before": snap(machine)})

    def after(machine, step, kind):
        if kind == "filter":
            caps[-1]["after"] = snap(machine)

    drive.run_pipeline(pipeline=pipe, disp=tuple(p["disp"]), spy=drive.Spy(before=before, after=after), **kw)
    changed = near = False
    for c in caps:
        cfg = pipe[c["step"]]
        for side, (d0, m0) in c["before"].items():
            d1, m1 = c["after"][side]
            tag = f"{side} step {c['step']} {cfg}"
            if not np.array_equal(m0, m1):
                ctx.violation("C10/validity-mask-changed", tag)
            inv = ((m0 & INV) != 0) | ~np.isfinite(d0)
            same = (d0 == d1) | (np.isnan(d0) & np.isnan(d1))
            if not same[inv].all():
                ctx.violation("C10/invalid-pixel-disparity-changed", tag)
            masked = np.where(inv, np.nan, d0).astype(np.float32)
            if cfg["filter_method"] == "median":
                exp = np.where(inv, d0, ref_median(masked, cfg.get("filter_size", 3)))
            else:
                e = ref_bilateral(masked, float(cfg.get("sigma_space", 6.0)), float(cfg.get("sigma_color", 2.0)))
                if e is None:
                    ctx.unspecified += 1
                    continue
                exp = np.where(inv, d0, e).astype(np.float32)
            ok = close(d1, np.asarray(exp, dtype=np.float32), rel=1e-5, abs_=1e-5)
            if not ok.all():
                r, cc = np.argwhere(~ok)[0]
                ctx.violation(f"C10/{cfg['filter_method']}-wrong", f"{tag} pixel {(int(r), int(cc))}: got {d1[r, cc]} expected {exp[r, cc]}")
            changed = changed or bool((~same).any())
            near = near or bool(inv.any() and (~inv).any())
            ctx.judged += int((~inv).sum())
    ctx.case(p, nontrivial=bool(changed and near), classes=[f"filters={len(caps)}"] +
             (["right-side"] if any("right" in c["before"] for c in caps) else []))


CHECKS = [
    Check("direct", body, strategy=cases, budget={"quick": (12, 90), "thorough": (16, 3000)}),
    Check("pipeline", pipeline_body, strategy=pipeline_cases, budget={"quick": (4, 25), "thorough": (16, 500)}),
]
