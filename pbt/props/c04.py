"""C04 — validity flags, NaN costs and invalid disparities tell one coherent story.

Generated pairs (masks / no-data next to borders and partial-range zones, scalar intervals and grids, windows 1/3/5,
invalid_disparity NaN or -9999) run through generated legal pipelines (repeated refinement / filter / validation,
filling, confidence steps, median_for_intervals); harness-side wrappers snapshot flags, disparities and the NaN
pattern of the cost volume after every step, on the left and (with validation) on the right side."""
from __future__ import annotations

import numpy as np
from hypothesis import strategies as st

from .. import drive, gen
from ..core import Check, Ctx

ID = "C04"
RULE = (
    "Hypothesis-generated pairs (window+0..6 x window+2..12, integer radiometry, sparse masks with no-data and invalid "
    "pixels on both sides, default or user convention), scalar intervals or per-pixel grids within [-4,4], windows "
    "1/3/5, invalid_disparity -9999 or NaN, legal single-scale pipelines with repeated steps. Non-trivial = the left "
    "image has >= 1 valid, >= 1 border, >= 1 left-invalid (bit 0 or 6) and >= 1 right-induced invalid (bit 1 or 7 "
    "without 0/6) pixel; class 'step-twice' = a step kind occurs twice. distinct = distinct canonical payload."
)
ASSUMPTIONS = [
    "bit 2 / bit 7 are three-zone: bit 2 must be 0 when every candidate window fits the right image, 1 when some "
    "candidate column lies outside the image and some window fits, unspecified otherwise; bit 7 must be 0 when a "
    "fitting candidate is not masked or no in-image candidate is masked at all, 1 when a window fits and every "
    "in-image candidate is masked, else unspecified",
    "invalid_disparity is NaN or lies outside the searched interval (the property's domain)",
]

INVALID = 0b0011000011  # bits 0, 1, 6, 7
OWN_BITS = {"refinement": 8, "filter": 0, "filter:median_for_intervals": 2048, "validation": 256 | 512,
            "validation:fill": 256 | 512 | 16 | 32, "disparity": 0, "aggregation": 0, "cost_volume_confidence": 0}


@st.composite
def cases(draw):
    steps = draw(gen.legal_pipeline(validation="maybe", repeat_validation=True, windows=(1, 3, 3, 5), subpix=(1, 1, 2),
                                    max_post=5))
    w = steps[0][1].get("window_size", 5)
    # the image is at least as large as every window used (matching window, median windows, cbca's 3x3 median)
    need = max([w, 3] + [c.get("filter_size", 3) for n, c in steps if c.get("filter_method") in ("median", "median_for_intervals")])
    H = max(need, w + draw(st.integers(1, 6)))
    W = max(need + 1, w + draw(st.integers(3, 12)))
    pair = draw(gen.image_pair(min_rows=H, max_rows=H, min_cols=W, max_cols=W, max_val=9, masks=True,
                               conventions="per-image"))
    if draw(st.integers(0, 4)) == 0:
        # interval bands + median_for_intervals (with regularisation, which needs an ambiguity band)
        idx = [n for n, _ in steps].index("disparity")
        steps.insert(idx, ["cost_volume_confidence.amb", {"confidence_method": "ambiguity"}])
        steps.insert(idx + 1, ["cost_volume_confidence.ib", {"confidence_method": "interval_bounds"}])
        steps.insert(idx + 3, ["filter.mfi", {"filter_method": "median_for_intervals", "interval_indicator": "ib",
                                               "regularization": draw(st.booleans()), "ambiguity_indicator": "amb"}])
        if draw(st.booleans()):
            # a second interval filter, right after the first one or as last step: regularisation may flag a pixel twice
            again = ["filter.mfi2", {"filter_method": "median_for_intervals", "interval_indicator": "ib",
                                    "regularization": draw(st.integers(0, 3)) > 0, "ambiguity_indicator": "amb"}]
            steps.insert(idx + 4 if draw(st.booleans()) else len(steps), again)
    lim = max(0, W - w)
    a = draw(st.integers(-min(4, lim), min(3, lim)))
    b = min(min(4, lim), a + draw(st.integers(0, 4)))
    p = {"pair": pair, "pipeline": steps, "disp": [a, b], "w": w,
         # row / column coordinates of the datasets (a pair read through a ROI does not start at 0): flags must not care
         "origin": draw(st.sampled_from([None, None, [5, 22], [0, 3], [40, 0]]))}
    names = [n.split(".")[0] for n, _ in steps]
    if "validation" not in names and draw(st.integers(0, 2)) == 0:
        gmin = draw(st.lists(st.lists(st.integers(a, b), min_size=W, max_size=W), min_size=H, max_size=H))
        ext = draw(st.lists(st.lists(st.integers(0, 2), min_size=W, max_size=W), min_size=H, max_size=H))
        p["grid_min"] = gmin
        p["grid_max"] = [[min(b, gmin[r][c] + ext[r][c]) for c in range(W)] for r in range(H)]
    return p


def ref_bits(ML, MR, gmin, gmax, w, valid, nodata, allnan, shape):
    """per non-border pixel: expected (b0, b1, b2|None, b6, b7|None)"""
    H, W = shape
    h = w // 2
    z = np.zeros((H, W), bool)
    nodL = (ML == nodata) if ML is not None else z
    invL = ((ML != valid) & (ML != nodata)) if ML is not None else z
    invR = ((MR != valid) & (MR != nodata)) if MR is not None else z
    out = {}
    ds = range(gmin, gmax + 1)
    for r in range(h, H - h):
        for c in range(h, W - h):
            b0 = bool(nodL[r - h:r + h + 1, c - h:c + h + 1].any())
            b6 = bool(invL[r, c])
            b1 = bool(allnan[r, c])
            fit = [d for d in ds if h <= c + d <= W - 1 - h]
            inimg = [d for d in ds if 0 <= c + d <= W - 1]
            outside = [d for d in ds if not 0 <= c + d <= W - 1]
            nofit = [d for d in ds if not h <= c + d <= W - 1 - h]
            b2 = 0 if not nofit else (1 if (outside and fit) else None)
            if any(not invR[r, c + d] for d in fit) or not any(invR[r, c + d] for d in inimg):
                b7 = 0  # a fitting candidate is not masked, or no in-image candidate is masked at all
            elif fit and all(invR[r, c + d] for d in inimg):
                b7 = 1
            else:
                b7 = None
            out[(r, c)] = (b0, b1, b2, b6, b7)
    return out


def judge_matching_cost(ctx, side, vm, allnan, ML, MR, gmin, gmax, w, valid, nodata, tag):
    H, W = vm.shape
    h = w // 2
    exp = ref_bits(ML, MR, gmin, gmax, w, valid, nodata, allnan, (H, W))
    stats = {"valid": 0, "left-invalid": 0, "right-invalid": 0}
    for r in range(H):
        for c in range(W):
            v = int(vm[r, c])
            if r < h or r >= H - h or c < h or c >= W - h:
                if v != 1:
                    ctx.violation("C04/border-pixel-not-bit0-only", f"{side} {(r, c)}: {v} {tag}")
                continue
            if v & ~0b11000111:
                ctx.violation("C04/undocumented-bit-after-matching-cost", f"{side} {(r, c)}: {v} {tag}")
            b0, b1, b2, b6, b7 = exp[(r, c)]
            for name, bit, e in (("0", 1, b0), ("1", 2, b1), ("2", 4, b2), ("6", 64, b6), ("7", 128, b7)):
                if e is None:
                    ctx.unspecified += 1
                    continue
                ctx.judged += 1
                if bool(v & bit) != bool(e):
                    ctx.violation(f"C04/bit{name}-cause-mismatch", f"{side} {(r, c)}: mask {v}, bit {name} expected {int(e)} "
                                                                   f"interval=[{gmin},{gmax}] w={w} {tag}")
            inv = (v & INVALID) != 0
            if inv != bool(allnan[r, c]):
                ctx.violation("C04/invalid-flag-vs-nan-costs", f"{side} {(r, c)}: mask {v} all-NaN costs={bool(allnan[r, c])} {tag}")
            if not inv:
                stats["valid"] += 1
            elif v & (1 | 64):
                stats["left-invalid"] += 1
            else:
                stats["right-invalid"] += 1
    return stats


def body(ctx: Ctx, p: dict) -> None:
    left, right, ml, mr = gen.materialise_pair(p["pair"])
    H, W = left.shape
    w = p["w"]
    h = w // 2
    conv = gen.conv_kwargs(p["pair"])
    # the reference reads canonical masks (0 valid, 1 no-data, other invalid), whatever convention each dataset announces
    mlc = gen._mask(p["pair"].get("mask_left"), H, W, 0, 1)
    mrc = gen._mask(p["pair"].get("mask_right"), H, W, 0, 1)
    steps = p["pipeline"]
    names = [n for n, _ in steps]
    kinds = [n.split(".")[0] for n in names]
    has_val = "validation" in kinds
    if "grid_min" in p:
        dmin, dmax = np.array(p["grid_min"], dtype=np.float32), np.array(p["grid_max"], dtype=np.float32)
    else:
        dmin, dmax = p["disp"]
    gmin, gmax = int(np.min(dmin)), int(np.max(dmax))
    inv_cfg = dict(steps)["disparity"].get("invalid_disparity", -9999) if False else next(c for n, c in steps if n == "disparity").get("invalid_disparity", -9999)
    inv_is_nan = inv_cfg == "NaN"
    tag = f"pipeline={steps} disp={p['disp']} grid={'grid_min' in p} shape={(H, W)}"
    snaps = []

    def after(machine, step, kind):
        rec = {"step": step, "kind": kind}
        for side, cv, dsp in (("left", machine.left_cv, machine.left_disparity), ("right", machine.right_cv, machine.right_disparity)):
            if side == "right" and not has_val:
                continue
            if cv is not None and "cost_volume" in cv:
                rec[f"{side}_allnan"] = np.isnan(cv["cost_volume"].data).all(axis=2)
                rec[f"{side}_cvmask"] = cv["validity_mask"].data.copy()
            if dsp is not None and "disparity_map" in dsp:
                rec[f"{side}_d"] = dsp["disparity_map"].data.copy()
                rec[f"{side}_m"] = dsp["validity_mask"].data.copy()
        snaps.append(rec)

    r0_, c0_ = p.get("origin") or (0, 0)
    drive.run_pipeline(left, right, gen.pipe_dict(steps), (dmin, dmax), msk_left=ml, msk_right=mr,
                       spy=drive.Spy(after=after), row0=r0_, col0=c0_, **conv)
    stats = None
    seen_validation = False
    prev = {"left": None, "right": None}
    cv_flags = {}
    for rec, (name, cfg) in zip(snaps, steps):
        kind = rec["kind"]
        for side in ("left", "right"):
            if f"{side}_allnan" not in rec:
                continue
            if kind == "matching_cost":
                if side == "left":
                    st_ = judge_matching_cost(ctx, side, rec["left_cvmask"], rec["left_allnan"], mlc, mrc, gmin, gmax, w,
                                              0, 1, tag)
                    stats = st_
                else:
                    judge_matching_cost(ctx, side, rec["right_cvmask"], rec["right_allnan"], mrc, mlc, -gmax, -gmin, w,
                                        0, 1, tag)
            if f"{side}_m" not in rec:
                continue
            # the disparity map got its own flags at the disparity step: what later steps add to them (3, 4/5, 8/9, 11)
            # is not written back into the cost volume, whose flags keep telling which costs are computable
            if kind == "disparity":
                cv_flags[side] = rec[f"{side}_cvmask"]
            elif cv_flags.get(side) is not None and not np.array_equal(cv_flags[side], rec[f"{side}_cvmask"]):
                r, c = np.argwhere(cv_flags[side] != rec[f"{side}_cvmask"])[0]
                ctx.violation("C04/cost-volume-flags-changed-after-disparity",
                              f"{side} after {name} {(int(r), int(c))}: {int(cv_flags[side][r, c])} -> "
                              f"{int(rec[f'{side}_cvmask'][r, c])} {tag}")
                cv_flags[side] = None
            m, d = rec[f"{side}_m"].astype(int), rec[f"{side}_d"]
            if (m >= 4096).any():
                ctx.violation("C04/undocumented-bit", f"{side} after {name}: values {np.unique(m[m >= 4096])[:4]} {tag}")
            border = np.ones((H, W), bool)
            if H > 2 * h and W > 2 * h:
                border[h:H - h, h:W - h] = False
            # (bit 11 is the own bit of interval regularisation, which flags whole zones, borders included)
            if h and ((m[border] & ~2048) != 1).any():
                ctx.violation("C04/border-pixel-not-bit0-only", f"{side} after {name}: {np.unique(m[border])} {tag}")
            core = ~border
            invalid = (m & INVALID) != 0
            if kind == "validation":
                seen_validation = True
            if not seen_validation:
                # before validation: invalid flag <=> all costs NaN <=> disparity == invalid value
                an = rec[f"{side}_allnan"]
                if (invalid[core] != an[core]).any():
                    r, c = np.argwhere(core & (invalid != an))[0]
                    ctx.violation("C04/invalid-flag-vs-nan-costs", f"{side} after {name} {(int(r), int(c))}: mask {m[r, c]} "
                                                                   f"all-NaN={bool(an[r, c])} {tag}")
                isinv_val = np.isnan(d) if inv_is_nan else (d == np.float32(-9999))
                if (isinv_val[core] != invalid[core]).any():
                    r, c = np.argwhere(core & (isinv_val != invalid))[0]
                    ctx.violation("C04/invalid-flag-vs-invalid-disparity", f"{side} after {name} {(int(r), int(c))}: mask {m[r, c]} "
                                                                           f"disparity {d[r, c]} {tag}")
            # each step changes only its own bits
            pm = prev[side]
            if pm is not None and kind != "disparity":
                key = kind
                if kind == "filter" and cfg["filter_method"] == "median_for_intervals":
                    key = "filter:median_for_intervals"
                if kind == "validation" and "interpolated_disparity" in cfg:
                    key = "validation:fill"
                allowed = OWN_BITS.get(key, 0)
                ch = (m ^ pm)[core]
                if (ch & ~allowed).any():
                    r, c = np.argwhere(core & (((m ^ pm) & ~allowed) != 0))[0]
                    ctx.violation(f"C04/{kind}-changed-foreign-bit", f"{side} step {name} {(int(r), int(c))}: {pm[r, c]} -> {m[r, c]} "
                                                                     f"(own bits {allowed}) {tag}")
                lost = pm & ~m & ~(256 | 512 if key == "validation:fill" else 0)
                if (lost[core] != 0).any():
                    r, c = np.argwhere(core & (lost != 0))[0]
                    ctx.violation(f"C04/{kind}-cleared-a-bit", f"{side} step {name} {(int(r), int(c))}: {pm[r, c]} -> {m[r, c]} {tag}")
                if ((m & 256) != 0)[core].any() and ((m & 512) != 0)[core].any() and (((m & 768) == 768)[core]).any():
                    ctx.violation("C04/both-occlusion-and-mismatch", f"{side} after {name} {tag}")
            prev[side] = m
    counts = {k: kinds.count(k) for k in set(kinds)}
    classes = []
    if p.get("origin"):
        classes.append("coordinates-not-from-0")
    if any(v > 1 for k, v in counts.items() if k in ("refinement", "filter", "validation")):
        classes.append("step-twice")
    if has_val:
        classes.append("validation")
    if "grid_min" in p:
        classes.append("grid")
    if ml is not None or mr is not None:
        classes.append("mask")
    if mr is not None and "valid_right" in p["pair"]:
        classes.append("right-mask-own-convention")
    nt = bool(stats and stats["valid"] and stats["left-invalid"] and stats["right-invalid"] and h > 0)
    ctx.case(p, nontrivial=nt, classes=classes)



# ---------------------------------------------------------------------------------------------------------------
# coarse-to-fine pipelines: the flags of the final scale still tell the causes found in the caller's own masks
# ---------------------------------------------------------------------------------------------------------------
@st.composite
def multiscale_cases(draw):
    pair = draw(gen.image_pair(min_rows=20, max_rows=36, min_cols=20, max_cols=40, max_val=30, masks=True, tile_max=8,
                               conventions="per-image"))
    ns = draw(st.sampled_from([2, 2, 3])) if min(pair["H"], pair["W"]) >= 32 else 2
    w = draw(st.sampled_from([1, 3, 3]))
    steps = [["matching_cost", {"matching_cost_method": draw(st.sampled_from(["sad", "census", "zncc"])) if w > 1 else "sad",
                               "window_size": w, "subpix": draw(st.sampled_from([1, 1, 2]))}],
             ["disparity", {"disparity_method": "wta", "invalid_disparity": draw(st.sampled_from([-9999, "NaN"]))}]]
    extra = [["filter", {"filter_method": "median", "filter_size": 3}],
             ["refinement", {"refinement_method": draw(st.sampled_from(["vfit", "quadratic"]))}]]
    steps += [e for e in extra if draw(st.integers(0, 2)) == 0]
    ms = ["multiscale", {"multiscale_method": "fixed_zoom_pyramid", "num_scales": ns, "scale_factor": 2,
                         "marge": draw(st.integers(0, 2))}]
    val = ["validation", {"validation_method": "cross_checking_accurate"}]
    mode = draw(st.sampled_from(["none", "none", "before", "after"]))
    steps += {"none": [ms], "before": [val, ms], "after": [ms, val]}[mode]
    a = draw(st.integers(-6, 2))
    return {"pair": pair, "pipeline": steps, "disp": [a, min(a + draw(st.integers(1, 6)), 6)], "w": w}


def multiscale_body(ctx: Ctx, p: dict) -> None:
    left, right, ml, mr = gen.materialise_pair(p["pair"])
    H, W = left.shape
    w = p["w"]
    h = w // 2
    mlc = gen._mask(p["pair"].get("mask_left"), H, W, 0, 1)
    mrc = gen._mask(p["pair"].get("mask_right"), H, W, 0, 1)
    steps = p["pipeline"]
    has_val = any(n == "validation" for n, _ in steps)
    tag = f"pipeline={steps} disp={p['disp']} shape={(H, W)}"
    res = drive.run_pipeline(left, right, gen.pipe_dict(steps), tuple(p["disp"]), msk_left=ml, msk_right=mr,
                             **gen.conv_kwargs(p["pair"]))
    seen = {"no-data": 0, "masked": 0}
    for side, out, M in (("left", res.left, mlc), ("right", res.right, mrc)):
        if side == "right" and not has_val:
            continue
        vm = out["validity_mask"].data
        z = np.zeros((H, W), bool)
        nod = (M == 1) if M is not None else z
        inv = ((M != 0) & (M != 1)) if M is not None else z
        if (vm.astype(np.int64) >= 4096).any():
            ctx.violation("C04/undocumented-bit", f"{side} final scale {tag}")
        for r in range(H):
            for c in range(W):
                v = int(vm[r, c])
                if r < h or r >= H - h or c < h or c >= W - h:
                    if v & 0b11000110:
                        ctx.violation("C04/border-pixel-not-bit0-only", f"{side} {(r, c)}: {v} (final scale) {tag}")
                    continue
                b0 = bool(nod[r - h:r + h + 1, c - h:c + h + 1].any())
                b6 = bool(inv[r, c])
                seen["no-data"] += b0
                seen["masked"] += b6
                ctx.judged += 2
                if bool(v & 1) != b0:
                    ctx.violation("C04/bit0-cause-mismatch", f"{side} {(r, c)}: mask {v}, bit 0 expected {int(b0)} "
                                                              f"(final scale of a pyramid) {tag}")
                if bool(v & 64) != b6:
                    ctx.violation("C04/bit6-cause-mismatch", f"{side} {(r, c)}: mask {v}, bit 6 expected {int(b6)} "
                                                              f"(final scale of a pyramid) {tag}")
    ctx.case(p, nontrivial=bool(seen["no-data"] and seen["masked"]),
             classes=["multiscale"] + (["validation"] if has_val else []) + [k for k, n in seen.items() if n])


CHECKS = [
    Check("pipelines", body, strategy=cases, budget={"quick": (16, 50), "thorough": (16, 1200)}),
    Check("multiscale", multiscale_body, strategy=multiscale_cases, budget={"quick": (8, 8), "thorough": (16, 150)}),
]
