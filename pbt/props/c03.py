"""C03 — winner-takes-all picks each pixel's best cost inside its disparity interval.

Direct calls of `WinnerTakesAll(**cfg).to_disp(cv)` on generated cost-volume datasets, compared with a
plane-by-plane scan that keeps the first strictly better cost (no blocks, no argmin)."""
from __future__ import annotations

import math

import numpy as np
from hypothesis import strategies as st

from .. import build
from ..core import Check, Ctx, fl

ID = "C03"
RULE = (
    "Hypothesis-generated cost volumes: shapes from {1..6} and, tile-constructed, {99,100,101,199,200,201} on either "
    "axis, 1-7 disparities on an integer or 1/subpix axis, float32 costs drawn from a small integer set (many ties) "
    "with NaN cells and all-NaN pixels, min and max measures, invalid_disparity in {-9999, 0, NaN, 'NaN', a value of "
    "the axis, 1e6}, optional confidence bands and arbitrary documented flag bits. Non-trivial = the volume has at "
    "least one pixel with a tie for the best cost, one all-NaN pixel and one regular pixel; distinct = distinct "
    "canonical payload. Pipeline twin: cost volumes as delivered by real matching-cost / cbca / confidence steps (incl. "
    "99-102 pixel images), left and right, judged by the same reference."
)
ASSUMPTIONS = [
    "costs are finite float32 or NaN (what matching cost / aggregation deliver); no +-inf costs are generated",
]

BIG = [99, 100, 101, 199, 200, 201]


@st.composite
def cases(draw):
    big = draw(st.integers(0, 9)) == 0
    if draw(st.integers(0, 11)) == 0:
        # a long disparity axis (more samples than an 8-bit index holds); the volume is a seeded pseudo-random field
        nd = draw(st.sampled_from([101, 150, 201, 255, 256, 257, 300, 513, 700]))
        subpix = draw(st.sampled_from([1, 4]))
        d0 = draw(st.sampled_from([-350, -128, 0, 3]))
        return {"ny": draw(st.integers(1, 3)), "nx": draw(st.integers(1, 4)),
                "disps": [d0 + k / subpix for k in range(nd)] if subpix != 1 else [d0 + k for k in range(nd)],
                "subpix": subpix, "type": draw(st.sampled_from(["min", "max"])), "warm": draw(st.sampled_from([None, None, "same", "other"])), "tile": None, "patches": [],
                "long": {"seed": draw(st.integers(0, 10 ** 6)), "nan": draw(st.sampled_from([0.0, 0.1, 0.6])),
                         # the best cost may be attained several times, far apart on the axis: the lowest disparity wins
                         "ties": draw(st.sampled_from([1, 1, 2, 3]))},
                "invalid": draw(st.sampled_from([-9999, "NaN"])), "nconf": 0, "mask_vals": [0]}
    nd = draw(st.integers(1, 7))
    subpix = draw(st.sampled_from([1, 1, 2, 4]))
    d0 = draw(st.integers(-6, 4))
    if subpix == 1:
        disps = [d0 + k for k in range(nd)]
    else:
        disps = [d0 + k / subpix for k in range(nd)]
    ty, tx = draw(st.integers(1, 6)), draw(st.integers(1, 6))
    # "best-inf": an infinite cost on the winning side (-inf for a cost, +inf for a similarity) - a computable cost like another
    cell = st.one_of(st.integers(0, 3), st.integers(0, 3), st.just("NaN"), st.integers(-50, 50), st.integers(0, 3), st.integers(-50, 50),
                     st.just("best-inf"))
    tile = draw(st.lists(st.lists(st.lists(cell, min_size=nd, max_size=nd), min_size=tx, max_size=tx),
                         min_size=ty, max_size=ty))
    if big:
        ny = draw(st.sampled_from(BIG + [7, 30]))
        nx = draw(st.sampled_from(BIG + [7, 30]))
        npatch = draw(st.integers(0, 8))
        patches = [
            [draw(st.integers(0, ny - 1)), draw(st.integers(0, nx - 1)),
             draw(st.lists(cell, min_size=nd, max_size=nd))]
            for _ in range(npatch)
        ]
    else:
        ny, nx, patches = ty, tx, []
    inv = draw(st.sampled_from([-9999, -9999, 0, "NaN", "NaN-string", "axis", 1e6, -1.5]))
    if inv == "axis":
        inv = disps[draw(st.integers(0, nd - 1))]
    nconf = draw(st.integers(0, 2))
    mask_vals = draw(st.lists(st.sampled_from([0, 0, 1, 2, 4, 64, 128, 6, 66, 130, 2048]), min_size=1, max_size=6))
    return {
        "ny": ny, "nx": nx, "disps": disps, "subpix": subpix, "type": draw(st.sampled_from(["min", "max"])), "warm": draw(st.sampled_from([None, None, "same", "other"])),
        "tile": tile, "patches": patches, "invalid": inv, "nconf": nconf, "mask_vals": mask_vals,
        # the volume may announce a window offset (attribute offset_row_col); its frame carries whatever flags it carries
        "off": draw(st.sampled_from([0, 0, 1, 2])),
        # ... and be a tile of a larger image: rows / columns labelled from another origin
        "origin": draw(st.sampled_from([None, None, [0, 3], [7, 0], [20, 50]])),
        "cmax_tight": draw(st.booleans()),
    }


def materialise(p):
    if p.get("long"):
        ny, nx, nd = p["ny"], p["nx"], len(p["disps"])
        rs = np.random.RandomState(p["long"]["seed"])
        cv = rs.randint(0, 60, (ny, nx, nd)).astype(np.float32)
        cv[rs.rand(ny, nx, nd) < p["long"]["nan"]] = np.nan
        # one strict winner per pixel, anywhere on the axis (often beyond position 255)
        for r in range(ny):
            for c in range(nx):
                for _ in range(p["long"].get("ties", 1)):
                    cv[r, c, rs.randint(0, nd)] = -5.0 if p["type"] == "min" else 99.0
        return cv, np.zeros((ny, nx), dtype=np.uint16), {}
    best_inf = "-inf" if p["type"] == "min" else "inf"
    sub_ = lambda x: [sub_(y) for y in x] if isinstance(x, list) else (best_inf if x == "best-inf" else x)  # noqa: E731
    tile = build.arr(sub_(p["tile"]))
    ty, tx, nd = tile.shape
    ny, nx = p["ny"], p["nx"]
    cv = np.tile(tile, (math.ceil(ny / ty), math.ceil(nx / tx), 1))[:ny, :nx, :].copy()
    for r, c, vals in p["patches"]:
        cv[r, c, :] = build.arr(sub_(vals))
    mv = np.array(p["mask_vals"], dtype=np.uint16)
    idx = (np.arange(ny)[:, None] * 7 + np.arange(nx)[None, :] * 3) % len(mv)
    mask = mv[idx]
    conf = {}
    for k in range(p["nconf"]):
        conf[f"confidence_from_x{k}"] = ((np.arange(ny)[:, None] + k) * 0.5 + np.arange(nx)[None, :]).astype(np.float32)
    return cv, mask, conf


def reference(cv, disps, type_measure, invalid):
    ny, nx, nd = cv.shape
    best = np.full((ny, nx), np.nan, dtype=np.float32)
    out = np.full((ny, nx), np.float32(invalid), dtype=np.float32)
    for k in range(nd):
        c = cv[:, :, k]
        with np.errstate(invalid="ignore"):
            better = ~np.isnan(c) & (np.isnan(best) | ((c < best) if type_measure == "min" else (c > best)))
        best[better] = c[better]
        out[better] = np.float32(disps[k])
    return out, best


def body(ctx: Ctx, p: dict) -> None:
    from pandora import disparity

    cv_np, mask, conf = materialise(p)
    disps = p["disps"]
    r0_, c0_ = p.get("origin") or (0, 0)
    cvds = build.cost_volume_dataset(cv_np, disps, p["type"], p.get("off", 0), p["subpix"], mask, conf or None, row0=r0_, col0=c0_)
    if p.get("cmax_tight") and np.isfinite(cv_np).any():
        # the reported maximal cost is attained by some cost of the volume (a saturated window): it is a cost like another
        cvds.attrs["cmax"] = float(np.max(np.abs(cv_np[np.isfinite(cv_np)])))
    before = build.snapshot(cvds)
    inv_cfg = p["invalid"]
    inv_val = math.nan if inv_cfg in ("NaN", "NaN-string") else float(inv_cfg)
    cfg_inv = "NaN" if inv_cfg == "NaN-string" else (math.nan if inv_cfg == "NaN" else inv_cfg)
    wta = disparity.AbstractDisparity(disparity_method="wta", invalid_disparity=cfg_inv)
    if p.get("warm"):
        # the object has already served: a small volume of the same or of the other kind of measure went through it
        wtype = p["type"] if p["warm"] == "same" else ("max" if p["type"] == "min" else "min")
        wcv = np.array([[[1.0, 2.0], [np.nan, 0.5], [3.0, np.nan]], [[0.0, 0.0], [2.0, 1.0], [np.nan, np.nan]]], dtype=np.float32)
        wta.to_disp(build.cost_volume_dataset(wcv, [0, 1], wtype, 0, 1, np.zeros((2, 3), dtype=np.uint16), None))
    out = wta.to_disp(cvds)

    exp, best = reference(cv_np, disps, p["type"], inv_val)
    got = out["disparity_map"].data
    if got.dtype != np.float32:
        ctx.violation("C03/disparity-dtype", str(got.dtype))
    if not np.array_equal(got, exp, equal_nan=True):
        bad = np.argwhere(~((got == exp) | (np.isnan(got) & np.isnan(exp))))
        r, c = bad[0]
        allnan = bool(np.isnan(cv_np[r, c]).all())
        sig = "C03/all-nan-pixel-not-invalid-disparity" if allnan else "C03/not-first-best-cost"
        ctx.violation(sig, f"pixel {(int(r), int(c))} of {cv_np.shape} got {got[r, c]} expected {exp[r, c]} "
                           f"costs={cv_np[r, c].tolist()} axis={disps} type={p['type']} ({len(bad)} pixels differ)")
    after = build.snapshot(cvds)
    d = [x for x in build.snapshot_diff(before, after) if x != "vars.disp_indices:presence"]
    if d:
        ctx.violation("C03/cost-volume-modified", f"{d}")
    if not np.array_equal(out["validity_mask"].data, mask) or out["validity_mask"].dtype != np.uint16:
        ctx.violation("C03/validity-mask-altered", "validity flags not carried over unaltered")
    if conf:
        if "confidence_measure" not in out or list(out.coords["indicator"].data) != list(conf):
            ctx.violation("C03/confidence-bands-lost", "confidence bands not carried over")
        else:
            for k, name in enumerate(conf):
                if not np.array_equal(out["confidence_measure"].data[:, :, k], conf[name], equal_nan=True):
                    ctx.violation("C03/confidence-bands-altered", name)
    elif "confidence_measure" in out:
        ctx.violation("C03/confidence-band-invented", "no band in the cost volume")
    if list(out.coords["row"].data) != list(cvds.coords["row"].data) or list(out.coords["col"].data) != list(cvds.coords["col"].data):
        ctx.violation("C03/map-coordinates-differ-from-the-volume", f"rows {out.coords['row'].data[:3]}.. cols {out.coords['col'].data[:3]}.. "
                                                                    f"for a volume starting at {(r0_, c0_)}")
    iv = out["disparity_interval"].data
    if float(iv[0]) != float(disps[0]) or float(iv[1]) != float(disps[-1]):
        ctx.violation("C03/disparity-interval-wrong", f"{iv.tolist()} vs axis ends {disps[0]},{disps[-1]}")
    if "disp_indices" in cvds and not np.array_equal(cvds["disp_indices"].data, got, equal_nan=True):
        ctx.violation("C03/disp-indices-differ", "cv.disp_indices != disparity map")

    finite = ~np.isnan(cv_np)
    allnan_px = ~finite.any(axis=2)
    with np.errstate(invalid="ignore"):
        ties = ((cv_np == best[:, :, None]) & finite).sum(axis=2) >= 2
    regular = finite.any(axis=2) & ~ties
    classes = []
    if p.get("warm"):
        classes.append("object-served-before-" + p["warm"] + "-measure")
    if p.get("long") and p["long"].get("ties", 1) > 1:
        classes.append("long-axis-with-distant-ties")
    if max(p["ny"], p["nx"]) >= 99:
        classes.append("crosses-block-boundary")
    if p["type"] == "max":
        classes.append("max-measure")
    if math.isnan(inv_val):
        classes.append("invalid=NaN")
    if p["subpix"] != 1:
        classes.append("subpixel-axis")
    ctx.judged += int(cv_np.shape[0] * cv_np.shape[1])
    if p.get("off"):
        classes.append("window-offset>0")
    if p.get("origin"):
        classes.append("coordinates-not-from-0")
    if p.get("long"):
        classes.append("axis-longer-than-255-samples" if len(p["disps"]) > 255 else "axis-255-samples")
    ctx.case(p, nontrivial=bool(ties.any() and allnan_px.any() and regular.any()), classes=classes)


# ---------------------------------------------------------------------------------------------------------------
# pipeline twin: cost volumes as the real matching-cost / aggregation / confidence steps deliver them
# ---------------------------------------------------------------------------------------------------------------
@st.composite
def pipeline_cases(draw):
    from .. import gen

    big = draw(st.integers(0, 5)) == 0
    if big:
        pair = draw(gen.image_pair(min_rows=99, max_rows=101, min_cols=100, max_cols=102, max_val=6, masks=True, tile_max=7))
    else:
        pair = draw(gen.image_pair(min_rows=6, max_rows=14, min_cols=8, max_cols=18, max_val=6, masks=True))
    steps = draw(gen.legal_pipeline(validation="maybe", fill=False, refinement=False, filters=False, max_post=1))
    a = draw(st.integers(-4, 1))
    p = {"pair": pair, "pipeline": steps, "disp": gen.clamp_interval([a, a + draw(st.integers(0, 5))], pair["W"], steps)}
    if not big and p["disp"][1] > p["disp"][0] and draw(st.integers(0, 2)) == 0:
        # per-pixel interval grids inside the scalar interval: both bounds vary, or only one of them does
        lo_, hi_ = p["disp"]
        H, W = pair["H"], pair["W"]
        mid = draw(st.integers(lo_, hi_))
        style = draw(st.sampled_from(["both", "min-constant", "max-constant"]))
        vary = lambda a_, b_: draw(st.lists(st.lists(st.integers(a_, b_), min_size=W, max_size=W), min_size=H, max_size=H))  # noqa: E731
        const = lambda v: [[v] * W for _ in range(H)]  # noqa: E731
        p["grid"] = {"style": style,
                     "min": const(lo_) if style == "min-constant" else vary(lo_, mid),
                     "max": const(hi_) if style == "max-constant" else vary(mid, hi_)}
    return p


def pipeline_body(ctx: Ctx, p: dict) -> None:
    from .. import drive, gen

    kw = gen.pair_kwargs(p["pair"])
    caps = {}

    def before(machine, step, kind):
        if kind == "disparity":
            for side, cv in (("left", machine.left_cv), ("right", machine.right_cv)):
                if cv is not None and "cost_volume" in cv:
                    caps[side] = {"cv": cv["cost_volume"].data.copy(), "axis": cv.coords["disp"].data.copy(),
                                  "type": cv.attrs["type_measure"], "mask": cv["validity_mask"].data.copy(),
                                  "conf": cv["confidence_measure"].data.copy() if "confidence_measure" in cv else None}

    def after(machine, step, kind):
        if kind == "disparity":
            for side, dsp, cv in (("left", machine.left_disparity, machine.left_cv), ("right", machine.right_disparity, machine.right_cv)):
                if side in caps and "disparity_map" in dsp:
                    caps[side]["d"] = dsp["disparity_map"].data.copy()
                    caps[side]["m"] = dsp["validity_mask"].data.copy()
                    caps[side]["cv_after"] = cv["cost_volume"].data.copy()
                    caps[side]["conf_after"] = dsp["confidence_measure"].data.copy() if "confidence_measure" in dsp else None

    steps = p["pipeline"]
    disp, rdisp = tuple(p["disp"]), None
    if "grid" in p:
        glo, ghi = np.array(p["grid"]["min"], dtype=np.float32), np.array(p["grid"]["max"], dtype=np.float32)
        disp = (glo, ghi)
        if any(n.split(".")[0] == "validation" for n, _ in steps):
            rdisp = (-ghi, -glo)
    drive.run_pipeline(pipeline=gen.pipe_dict(steps), disp=disp, right_disp=rdisp, spy=drive.Spy(before=before, after=after), **kw)
    inv_cfg = next(c for n, c in steps if n == "disparity").get("invalid_disparity", -9999)
    inv = math.nan if inv_cfg == "NaN" else float(inv_cfg)
    ties = allnan = False
    for side, c in caps.items():
        if "d" not in c:
            continue
        exp, best = reference(c["cv"], c["axis"], c["type"], inv)
        if not np.array_equal(c["d"], exp, equal_nan=True):
            bad = np.argwhere(~((c["d"] == exp) | (np.isnan(c["d"]) & np.isnan(exp))))
            r, cc = bad[0]
            ctx.violation("C03/not-first-best-cost", f"{side} pixel {(int(r), int(cc))} got {c['d'][r, cc]} expected {exp[r, cc]} "
                                                     f"costs={c['cv'][r, cc].tolist()} type={c['type']} pipeline={steps}")
        if "grid" in p:
            # the disparity lies inside the pixel's own requested interval
            lo_g, hi_g = (glo, ghi) if side == "left" else (-ghi, -glo)
            got_valid = ~np.isnan(c["d"]) if math.isnan(inv) else (c["d"] != inv)
            out = got_valid & ((c["d"] < lo_g) | (c["d"] > hi_g))
            if out.any():
                r, cc = np.argwhere(out)[0]
                ctx.violation("C03/disparity-outside-the-pixel-interval", f"{side} pixel {(int(r), int(cc))} got {c['d'][r, cc]}, its interval "
                                                                          f"is [{lo_g[r, cc]},{hi_g[r, cc]}] (grid style {p['grid']['style']}) pipeline={steps}")
        if not np.array_equal(c["cv"], c["cv_after"], equal_nan=True):
            ctx.violation("C03/cost-volume-modified", f"{side} pipeline={steps}")
        if not np.array_equal(c["mask"], c["m"]):
            ctx.violation("C03/validity-mask-altered", f"{side} pipeline={steps}")
        if (c["conf"] is None) != (c["conf_after"] is None) or (c["conf"] is not None and not np.array_equal(c["conf"], c["conf_after"], equal_nan=True)):
            ctx.violation("C03/confidence-bands-altered", f"{side} pipeline={steps}")
        fin = ~np.isnan(c["cv"])
        with np.errstate(invalid="ignore"):
            ties = ties or bool((((c["cv"] == best[:, :, None]) & fin).sum(axis=2) >= 2).any())
        allnan = allnan or bool((~fin.any(axis=2)).any())
        ctx.judged += int(exp.size)
    ctx.case(p, nontrivial=bool(ties and allnan), classes=(["crosses-block-boundary"] if p["pair"]["H"] >= 99 else []) +
             (["right-side"] if "right" in caps and "d" in caps["right"] else []) +
             ([f"grid-{p['grid']['style']}"] if "grid" in p else []))


CHECKS = [
    Check("direct", body, strategy=cases, budget={"quick": (12, 150), "thorough": (16, 5000)}),
    Check("pipeline", pipeline_body, strategy=pipeline_cases, budget={"quick": (4, 25), "thorough": (16, 500)}),
]
