"""C16 — image datasets faithfully encode input rasters, masks, nodata and ROI.

GeoTIFFs are written by the harness, read through `create_dataset_from_inputs`, and the dataset is compared with a
direct restatement (samples, band names, mask semantics, nodata replacement, disparity, classif/segm, attributes);
ROI reads are compared with an `isel` crop of the full read, exhaustively over a small raster."""
from __future__ import annotations

import itertools
import math
import os

import numpy as np
from hypothesis import strategies as st

from .. import files
from ..core import Check, Ctx, fl

ID = "C16"
RULE = (
    "rasters: Hypothesis-generated GeoTIFFs (3-9 x 3-9, 1-3 named bands, dtypes uint8/int16/uint16/int32/float32/"
    "float64 with float32-exact values, nodata in {value present, value absent, NaN, +inf, -inf, omitted}, mask rasters "
    "with int16 values incl. negative / 2 / 255, disparity list or 2-band grid or none, classif with named bands, segm, "
    "with and without CRS/transform, optional ROI); non-trivial = >= 1 nodata and >= 1 masked pixel that do not coincide. "
    "roi: exhaustive (first,last) x margins table on a 6x7 raster incl. touching / outside positions; non-trivial = the "
    "window is clipped on >= 1 side. distinct = distinct canonical payload."
)
ASSUMPTIONS = [
    "ROI dictionaries are well-formed (first <= last, non-negative margins)",
    "a multiband pixel is no-data when any of its band samples equals the nodata value (what the reader does; the "
    "property does not distinguish bands)",
]

DTYPES = ["uint8", "int16", "uint16", "int32", "float32", "float64"]


@st.composite
def raster_cases(draw):
    H, W = draw(st.integers(3, 9)), draw(st.integers(3, 9))
    nb = draw(st.sampled_from([1, 1, 2, 3]))
    dtype = draw(st.sampled_from(DTYPES))
    isf = dtype.startswith("float")
    lo = 0 if dtype.startswith("u") else -20
    special = st.sampled_from(["NaN", "inf", "-inf"]) if isf else st.nothing()
    px = st.one_of(st.integers(lo, 40), st.integers(lo, 40), special) if isf else st.integers(lo, 40)
    img = draw(st.lists(st.lists(st.lists(px, min_size=W, max_size=W), min_size=H, max_size=H), min_size=nb, max_size=nb))
    nodata = draw(st.sampled_from(["omit", 0, 7, 40, -9999, 12345, "NaN", "inf", "-inf"]))
    layout = None
    if (nodata in (0, 7, 40) or (nodata == "NaN" and isf)) and draw(st.integers(0, 3)) == 0:
        # every no-data sample sits in the first row / the first band / at the origin, nowhere else
        layout = draw(st.sampled_from(["first-row", "first-band", "origin"]))
        other = 1 if nodata != 1 else 2
        cols = draw(st.lists(st.integers(0, W - 1), min_size=1, max_size=3))
        for b in range(nb):
            for r in range(H):
                for c in range(W):
                    if img[b][r][c] == nodata:
                        img[b][r][c] = other
        for b in range(nb):
            if layout == "first-band" and b > 0:
                continue
            for c in ([0] if layout == "origin" else cols):
                img[b][0 if layout != "first-band" else draw(st.integers(0, H - 1))][c] = nodata
    mask = None
    if layout is None and draw(st.booleans()) or (layout is not None and draw(st.integers(0, 3)) == 0):
        mask = draw(st.lists(st.lists(st.sampled_from([0, 0, 0, 1, 2, 255, -1, -7]), min_size=W, max_size=W), min_size=H, max_size=H))
    dkind = draw(st.sampled_from(["list", "grid", "none"]))
    p = {"H": H, "W": W, "nb": nb, "dtype": dtype, "img": img, "nodata": nodata, "mask": mask, "dkind": dkind,
         "georef": draw(st.booleans()), "classif": draw(st.booleans()), "segm": draw(st.booleans())}
    if layout:
        p["nodata_layout"] = layout
    if isf and nodata in (0, 7, 40, -9999, 12345) and draw(st.integers(0, 3)) == 0:
        p["near_nodata"] = [[draw(st.integers(0, nb - 1)), draw(st.integers(0, H - 1)), draw(st.integers(0, W - 1))]
                            for _ in range(draw(st.integers(1, 3)))]
    if dkind == "list":
        a = draw(st.integers(-9, 5))
        p["disp"] = [a, a + draw(st.integers(0, 9))]
    elif dkind == "grid":
        p["grid_lo"] = draw(st.lists(st.lists(st.integers(-9, 3), min_size=W, max_size=W), min_size=H, max_size=H))
        p["grid_ext"] = draw(st.integers(0, 4))
    if draw(st.integers(0, 2)) == 0:
        c0 = draw(st.integers(0, W - 1))
        r0 = draw(st.integers(0, H - 1))
        p["roi"] = {"col": {"first": c0, "last": draw(st.integers(c0, W + 1))}, "row": {"first": r0, "last": draw(st.integers(r0, H + 1))},
                    "margins": draw(st.lists(st.integers(0, 3), min_size=4, max_size=4))}
    return p


def decode_img(p):
    def conv(v):
        if isinstance(v, list):
            return [conv(x) for x in v]
        return fl(v)

    a = np.array(conv(p["img"]), dtype=p["dtype"])
    for b, r, c in p.get("near_nodata", []):
        # a sample very close to the no-data value but not equal to it: it is data
        nd = float(p["nodata"])
        a[b, r, c] = np.array(4e-9 if nd == 0 else nd * (1 + 4e-6), dtype=p["dtype"])
    return a


def expected_window(roi, H, W):
    """rows, cols kept (inclusive ranges) or None when the ROI does not intersect the image"""
    ml, mu, mr, md = roi["margins"]
    c0, c1 = roi["col"]["first"] - ml, roi["col"]["last"] + mr
    r0, r1 = roi["row"]["first"] - mu, roi["row"]["last"] + md
    c0, c1 = max(c0, 0), min(c1, W - 1)
    r0, r1 = max(r0, 0), min(r1, H - 1)
    if c0 > c1 or r0 > r1:
        return None
    return r0, r1, c0, c1


def raster_body(ctx: Ctx, p: dict) -> None:
    from pandora.img_tools import create_dataset_from_inputs

    H, W, nb = p["H"], p["W"], p["nb"]
    img = decode_img(p)
    with files.scratch_dir("c16") as d:
        desc = ["r", "g", "b"][:nb] if nb > 1 else None
        cfg = {"img": files.write_tiff(os.path.join(d, "img.tif"), img, dtype=p["dtype"], descriptions=desc, georef=p["georef"])}
        if p["nodata"] != "omit":
            cfg["nodata"] = fl(p["nodata"]) if isinstance(p["nodata"], str) else p["nodata"]
        else:
            cfg["nodata"] = -9999  # the documented default that check_conf fills in
        mask = None
        if p["mask"] is not None:
            mask = np.array(p["mask"], dtype=np.int16)
            cfg["mask"] = files.write_tiff(os.path.join(d, "mask.tif"), mask, dtype="int16")
        grid = None
        if p["dkind"] == "list":
            cfg["disp"] = list(p["disp"])
        elif p["dkind"] == "grid":
            lo = np.array(p["grid_lo"], dtype=np.float32)
            grid = np.stack([lo, lo + p["grid_ext"]])
            cfg["disp"] = files.write_tiff(os.path.join(d, "grid.tif"), grid, dtype="float32")
        classif = segm = None
        if p["classif"]:
            # class codes over the whole 16-bit range (negative, above 255), "attached unchanged"
            classif = ((np.arange(2 * H * W).reshape(2, H, W) % 7) * 150 - 300).astype(np.int16)
            classif[:, 0, 0] = [32767, -32768]
            cfg["classif"] = files.write_tiff(os.path.join(d, "classif.tif"), classif, dtype="int16", descriptions=["veg", "water"])
        if p["segm"]:
            segm = ((np.arange(H * W).reshape(H, W) % 5) * 9000 - 20000).astype(np.int16)
            cfg["segm"] = files.write_tiff(os.path.join(d, "segm.tif"), segm, dtype="int16")
        roi = p.get("roi")
        win = expected_window(roi, H, W) if roi else (0, H - 1, 0, W - 1)
        tag = f"dtype={p['dtype']} nb={nb} nodata={p['nodata']} mask={'yes' if mask is not None else 'no'} roi={roi}"
        try:
            ds = create_dataset_from_inputs(cfg, roi)
        except Exception as exc:  # noqa: BLE001
            if win is None:
                ctx.case(p, False, ["roi-outside"])
                return
            raise
        if win is None:
            ctx.violation("C16/roi-outside-image-accepted", f"{tag}: dataset sizes {dict(ds.sizes)}")
            ctx.case(p, False, ["roi-outside"])
            return
    r0, r1, c0, c1 = win
    sl = (slice(r0, r1 + 1), slice(c0, c1 + 1))
    # ---- image samples
    nodata = cfg["nodata"]
    imgf = img.astype(np.float32)
    if isinstance(nodata, float) and math.isnan(nodata):
        nd = np.isnan(imgf)
    elif isinstance(nodata, float) and math.isinf(nodata):
        nd = np.isinf(imgf)  # the reader treats +inf and -inf alike
    else:
        nd = imgf == nodata
    exp_im = imgf.copy()
    special = isinstance(nodata, float) and (math.isnan(nodata) or math.isinf(nodata))
    ndw = nd[(slice(None),) + sl]
    if special and ndw.any():
        exp_im[nd] = -9999
    exp_im = exp_im[(slice(None),) + sl]
    got_im = ds["im"].data
    exp_im_cmp = exp_im if nb > 1 else exp_im[0]
    if ds["im"].dtype != np.float32:
        ctx.violation("C16/image-not-float32", str(ds["im"].dtype))
    if got_im.shape != exp_im_cmp.shape or not np.array_equal(got_im, exp_im_cmp, equal_nan=True):
        ctx.violation("C16/image-samples-differ", f"{tag}: got {got_im.tolist()} expected {exp_im_cmp.tolist()}")
    if nb > 1 and list(ds.coords["band_im"].data) != ["r", "g", "b"][:nb]:
        ctx.violation("C16/band-names-wrong", f"{list(ds.coords['band_im'].data)}")
    if list(ds.coords["row"].data) != list(range(r0, r1 + 1)) or list(ds.coords["col"].data) != list(range(c0, c1 + 1)):
        ctx.violation("C16/coordinates-wrong", f"{tag}: rows {ds.coords['row'].data.tolist()} cols {ds.coords['col'].data.tolist()}")
    # ---- mask
    nd_px = ndw.any(axis=0)
    mw = mask[sl] if mask is not None else None
    n_nd = int(nd_px.sum())
    n_msk = int((mw != 0).sum()) if mw is not None else 0
    if mask is None and n_nd == 0:
        if "msk" in ds:
            ctx.violation("C16/mask-created-with-nothing-to-flag", tag)
    elif "msk" not in ds:
        ctx.violation("C16/mask-missing", tag)
    else:
        m = ds["msk"].data
        v, n = ds.attrs["valid_pixels"], ds.attrs["no_data_mask"]
        is_nd = m == n
        is_valid = m == v
        is_inv = ~is_nd & ~is_valid
        if not np.array_equal(is_nd, nd_px):
            ctx.violation("C16/no-data-pixels-wrong", f"{tag}: msk {m.tolist()} nodata pixels {nd_px.astype(int).tolist()}")
        if mw is not None:
            exp_inv = (mw != 0) & ~nd_px
            if not np.array_equal(is_inv, exp_inv):
                neg = bool(((mw < 0) & ~nd_px & ~is_inv).any()) and np.array_equal(is_inv, (mw > 0) & ~nd_px)
                sig = "C16/negative-mask-value-treated-as-valid" if neg else "C16/invalid-pixels-wrong"
                ctx.violation(sig, f"{tag}: msk {m.tolist()} input mask {mw.tolist()}")
        elif is_inv.any():
            ctx.violation("C16/invalid-pixels-wrong", f"{tag}: invalid pixels without an input mask")
    # ---- attributes
    if special and n_nd:
        if ds.attrs.get("no_data_img") != -9999:
            ctx.violation("C16/no_data_img-attribute-wrong", f"{ds.attrs.get('no_data_img')} expected -9999")
    elif not special and ds.attrs.get("no_data_img") != nodata:
        ctx.violation("C16/no_data_img-attribute-wrong", f"{ds.attrs.get('no_data_img')} expected {nodata}")
    if p["georef"]:
        if ds.attrs.get("crs") is None or ds.attrs.get("transform") is None:
            ctx.violation("C16/georeferencing-lost", f"crs={ds.attrs.get('crs')} transform={ds.attrs.get('transform')}")
    elif ds.attrs.get("crs") is not None:
        ctx.violation("C16/georeferencing-invented", f"crs={ds.attrs.get('crs')}")
    # ---- disparity
    if p["dkind"] == "none":
        if "disparity" in ds:
            ctx.violation("C16/disparity-invented", tag)
    else:
        if "disparity" not in ds or list(ds.coords["band_disp"].data) != ["min", "max"]:
            ctx.violation("C16/disparity-missing", tag)
        else:
            g = ds["disparity"].data
            if p["dkind"] == "list":
                e = np.stack([np.full(nd_px.shape, p["disp"][0]), np.full(nd_px.shape, p["disp"][1])])
            else:
                e = grid[(slice(None),) + sl]
            if g.shape != e.shape or not np.array_equal(g.astype(np.float64), e.astype(np.float64)):
                ctx.violation("C16/disparity-wrong", f"{tag}: {g.tolist()} expected {e.tolist()}")
    # ---- classif / segm
    for name, arr in (("classif", classif), ("segm", segm)):
        if arr is None:
            if name in ds:
                ctx.violation(f"C16/{name}-invented", tag)
        elif name not in ds:
            ctx.violation(f"C16/{name}-missing", tag)
        else:
            e = arr[(slice(None),) + sl] if arr.ndim == 3 else arr[sl]
            if ds[name].data.shape != e.shape or not np.array_equal(ds[name].data, e) or ds[name].dtype != np.int16:
                ctx.violation(f"C16/{name}-altered", tag)
    if classif is not None and "classif" in ds and list(ds.coords["band_classif"].data) != ["veg", "water"]:
        ctx.violation("C16/classif-band-names-wrong", f"{list(ds.coords['band_classif'].data)}")
    ctx.judged += 1
    classes = [p["dtype"]]
    if p.get("nodata_layout"):
        classes.append("nodata-only-in-" + p["nodata_layout"])
    if p.get("near_nodata"):
        classes.append("sample-close-to-nodata")
    if roi:
        classes.append("roi")
    if special:
        classes.append("nodata-nan-or-inf")
    if mask is not None and (mask < 0).any():
        classes.append("negative-mask")
    coincide = mw is not None and bool(((mw != 0) & nd_px).any())
    ctx.case(p, nontrivial=bool(n_nd and n_msk and (n_msk > int(((mw != 0) & nd_px).sum()) if mw is not None else False)),
             classes=classes + (["mask-and-nodata-coincide"] if coincide else []))


# ---------------------------------------------------------------------------------------------------------------
RH, RW = 6, 7


def enumerate_roi(tier, shard, nshards):
    vals_c = list(range(-3, RW + 3))
    vals_r = list(range(-3, RH + 3))
    margins = [0, 1, 3]
    n = 0
    row_cfgs = [(0, RH - 1, 0, 0), (2, 3, 1, 1), (-2, -1, 0, 1), (RH, RH + 1, 1, 0), (-3, -2, 0, 0), (1, 1, 3, 3)]
    col_cfgs = [(0, RW - 1, 0, 0), (2, 4, 1, 1), (-2, -1, 1, 0), (RW, RW + 2, 0, 1), (RW + 1, RW + 2, 0, 0), (3, 3, 3, 3)]
    for first, last in itertools.combinations_with_replacement(vals_c, 2):
        for ml, mr in itertools.product(margins, repeat=2):
            rf, rl, mu, md = row_cfgs[n % len(row_cfgs)]
            if n % nshards == shard:
                yield {"col": [first, last], "row": [rf, rl], "margins": [ml, mu, mr, md]}
            n += 1
    for first, last in itertools.combinations_with_replacement(vals_r, 2):
        for mu, md in itertools.product(margins, repeat=2):
            cf, cl, ml, mr = col_cfgs[n % len(col_cfgs)]
            if n % nshards == shard:
                yield {"col": [cf, cl], "row": [first, last], "margins": [ml, mu, mr, md]}
            n += 1


_ROI_FILES = {}


def roi_body(ctx: Ctx, p: dict) -> None:
    from pandora.img_tools import create_dataset_from_inputs

    roi = {"col": {"first": p["col"][0], "last": p["col"][1]}, "row": {"first": p["row"][0], "last": p["row"][1]},
           "margins": list(p["margins"])}
    with files.scratch_dir("c16roi") as d:
        img = (np.arange(2 * RH * RW).reshape(2, RH, RW) % 23).astype(np.float32)
        img[0, 2, 3] = 99
        mask = ((np.arange(RH * RW).reshape(RH, RW) % 4) == 0).astype(np.int16)
        lo = (np.arange(RH * RW).reshape(RH, RW) % 5 - 3).astype(np.float32)
        cfg = {"img": files.write_tiff(os.path.join(d, "i.tif"), img, descriptions=["r", "g"]), "nodata": 99,
               "mask": files.write_tiff(os.path.join(d, "m.tif"), mask, dtype="int16"),
               "disp": files.write_tiff(os.path.join(d, "g.tif"), np.stack([lo, lo + 2])),
               "segm": files.write_tiff(os.path.join(d, "s.tif"), mask * 3, dtype="int16")}
        full = create_dataset_from_inputs(cfg)
        win = expected_window(roi, RH, RW)
        try:
            ds = create_dataset_from_inputs(cfg, roi)
            err = None
        except Exception as exc:  # noqa: BLE001
            ds, err = None, exc
    tag = f"roi={roi}"
    clipped = False
    if win is None:
        if ds is not None:
            touching = 0 in ds["im"].shape
            ctx.violation("C16/roi-touching-image-accepted-with-empty-dataset" if touching else "C16/roi-outside-image-accepted",
                          f"{tag}: sizes {dict(ds.sizes)}")
    elif ds is None:
        ctx.violation("C16/roi-intersecting-image-refused", f"{tag}: {type(err).__name__}: {str(err)[:100]}")
    else:
        r0, r1, c0, c1 = win
        exp = full.isel(row=slice(r0, r1 + 1), col=slice(c0, c1 + 1))
        for v in set(exp.data_vars) | set(ds.data_vars):
            if v not in ds or v not in exp or ds[v].shape != exp[v].shape or not np.array_equal(ds[v].data, exp[v].data, equal_nan=True):
                ctx.violation("C16/roi-read-differs-from-crop", f"{tag}: variable {v}: {ds[v].shape if v in ds else None} vs "
                                                                f"{exp[v].shape if v in exp else None}")
        for cn in ("row", "col"):
            if list(ds.coords[cn].data) != list(exp.coords[cn].data):
                ctx.violation("C16/roi-coordinates-wrong", f"{tag}: {cn} {ds.coords[cn].data.tolist()} expected {exp.coords[cn].data.tolist()}")
        ml, mu, mr, md = roi["margins"]
        clipped = (roi["col"]["first"] - ml < 0 or roi["col"]["last"] + mr > RW - 1 or roi["row"]["first"] - mu < 0 or
                   roi["row"]["last"] + md > RH - 1)
    ctx.judged += 1
    ctx.case(p, nontrivial=bool(clipped), classes=["outside" if win is None else "inside"])


CHECKS = [
    Check("rasters", raster_body, strategy=raster_cases, budget={"quick": (12, 60), "thorough": (16, 1500)}),
    Check("roi", roi_body, enumerate=enumerate_roi, exhaustive=True, budget={"quick": (4, 0), "thorough": (4, 0)}),
]
