"""Process bootstrap: make `import pandora` resolve to $VERIF_REPO's working tree, quickly and reproducibly.

* `$VERIF_REPO` (default /repo) is put first on sys.path, so the imported sources are the current working tree.
* Pandora compiles ~20 numba kernels eagerly at import (23-30 s per process).  The harness wraps `numba.njit`
  so that every kernel is compiled with ``cache=True`` into a cache directory keyed by the SHA-256 of all
  ``pandora/**/*.py`` (plus the PANDORA_NUMBA_PARALLEL value, which numba's cache index ignores).  A changed
  tree therefore always compiles afresh, an unchanged tree starts in ~2 s.  This changes nothing in /repo.
"""
from __future__ import annotations

import hashlib
import os
import sys

VERIF_DIR = os.path.dirname(os.path.dirname(os.path.abspath(__file__)))
REPO = os.path.abspath(os.environ.get("VERIF_REPO", "/repo"))
GUARD = "CNES_PANDORA_VERIF"

_BOOTSTRAPPED = False


def tree_hash(repo: str = REPO) -> str:
    h = hashlib.sha256()
    root = os.path.join(repo, "pandora")
    for dirpath, dirnames, filenames in sorted(os.walk(root)):
        dirnames.sort()
        if "__pycache__" in dirpath:
            continue
        for fn in sorted(filenames):
            if fn.endswith(".py"):
                p = os.path.join(dirpath, fn)
                h.update(os.path.relpath(p, root).encode())
                with open(p, "rb") as f:
                    h.update(hashlib.sha256(f.read()).digest())
    return h.hexdigest()[:20]


def cache_dir(par: str = None) -> str:
    par = par or os.environ.get("PANDORA_NUMBA_PARALLEL", "True")
    return os.path.join(VERIF_DIR, ".cache", "numba", f"{tree_hash()}-{par}")


def base_env(threads: int = 2) -> dict:
    """Environment for worker subprocesses."""
    env = dict(os.environ)
    env["PYTHONHASHSEED"] = "0"
    env["VERIF_REPO"] = REPO
    env[GUARD] = "1"
    env.setdefault("NUMBA_NUM_THREADS", str(threads))
    env["NUMBA_CACHE_DIR"] = cache_dir()
    env["PYTHONDONTWRITEBYTECODE"] = "1"
    env["OMP_NUM_THREADS"] = "1"
    env["OPENBLAS_NUM_THREADS"] = "1"
    env["MKL_NUM_THREADS"] = "1"
    pp = [VERIF_DIR]
    deps = os.path.join(VERIF_DIR, ".deps")
    if os.path.isdir(deps):
        pp.append(deps)
    if env.get("PYTHONPATH"):
        pp.append(env["PYTHONPATH"])
    env["PYTHONPATH"] = os.pathsep.join(pp)
    return env


def bootstrap() -> None:
    """Call before importing pandora (idempotent)."""
    global _BOOTSTRAPPED
    if _BOOTSTRAPPED:
        return
    _BOOTSTRAPPED = True
    os.environ.setdefault(GUARD, "1")
    os.environ.setdefault("NUMBA_CACHE_DIR", cache_dir())
    os.makedirs(os.environ["NUMBA_CACHE_DIR"], exist_ok=True)
    deps = os.path.join(VERIF_DIR, ".deps")
    if os.path.isdir(deps) and deps not in sys.path:
        sys.path.append(deps)
    if REPO in sys.path:
        sys.path.remove(REPO)
    sys.path.insert(0, REPO)

    import warnings

    warnings.filterwarnings("ignore")
    import numba

    _orig = numba.njit

    # kernels that receive another jitted function as argument cannot be cached reliably (the argument's type is
    # identity based: every process misses the cache, recompiles, and pickling the result can fail)
    no_cache = {"loop_refinement", "loop_approximate_refinement"}

    def njit(*args, **kwargs):
        if len(args) == 1 and callable(args[0]) and not kwargs:
            if args[0].__name__ in no_cache:
                return _orig(args[0])
            return _orig(cache=True)(args[0])
        if kwargs.get("cache"):
            return _orig(*args, **kwargs)
        inner = _orig(*args, **kwargs)

        def deco(fn):
            if getattr(fn, "__name__", "") in no_cache:
                return inner(fn)
            return _orig(*args, **dict(kwargs, cache=True))(fn)

        return deco

    numba.njit = njit
    import logging

    logging.disable(logging.CRITICAL)
    import pandora  # noqa: F401

    got = os.path.dirname(os.path.dirname(os.path.abspath(pandora.__file__)))
    if os.path.realpath(got) != os.path.realpath(REPO):
        raise RuntimeError(f"pandora imported from {got}, expected {REPO}")
