"""The documented Pandora machine (docs/source/userguide/sequencing.rst), as a three-state DFA."""
from __future__ import annotations

KINDS = ["matching_cost", "aggregation", "optimization", "semantic_segmentation", "cost_volume_confidence",
         "disparity", "filter", "refinement", "validation", "multiscale"]

# (state, kind) -> next state (checking semantics: multiscale keeps disp_map)
DELTA = {("begin", "matching_cost"): "cost_volume"}
for _k in ("aggregation", "optimization", "semantic_segmentation", "cost_volume_confidence"):
    DELTA[("cost_volume", _k)] = "cost_volume"
DELTA[("cost_volume", "disparity")] = "disp_map"
for _k in ("filter", "refinement", "validation", "multiscale"):
    DELTA[("disp_map", _k)] = "disp_map"


def kind_of(name: str) -> str:
    return name.split(".")[0]


def accepts(kinds) -> bool:
    state = "begin"
    for k in kinds:
        state = DELTA.get((state, k))
        if state is None:
            return False
    return True


DEFAULT_CFG = {
    "matching_cost": {"matching_cost_method": "sad", "window_size": 3},
    "aggregation": {"aggregation_method": "cbca"},
    "optimization": {"optimization_method": "verif_identity"},
    "semantic_segmentation": {"segmentation_method": "verif_identity", "RGB_bands": {}},
    "cost_volume_confidence": {"confidence_method": "ambiguity"},
    "disparity": {"disparity_method": "wta"},
    "filter": {"filter_method": "median"},
    "refinement": {"refinement_method": "vfit"},
    "validation": {"validation_method": "cross_checking_accurate"},
    "multiscale": {"multiscale_method": "fixed_zoom_pyramid"},
}
