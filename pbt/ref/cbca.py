"""Naive cross-based cost aggregation: region enumeration per pixel, no integral images.

Written from the property text / user guide: 3x3 nan-median of the masked images (border pixels unfiltered), arms
along the four directions stopping before `distance`, at an intensity jump >= `intensity`, at a masked pixel or at the
image edge, with a one-pixel minimum toward a valid neighbour; combined region = vertical arm of the anchor, then the
horizontal arms of every pixel of that arm, each arm the min of the left-image arm and the right-image arm at the
corresponding column; output = sum of the non-NaN input costs over the region / number of pixels of the region."""
from __future__ import annotations

import numpy as np


def nanmed3(img: np.ndarray) -> np.ndarray:
    out = img.copy()
    H, W = img.shape
    for r in range(1, H - 1):
        for c in range(1, W - 1):
            if np.isnan(img[r, c]):
                continue
            w = img[r - 1:r + 2, c - 1:c + 2].ravel()
            w = w[~np.isnan(w)]
            out[r, c] = np.float32(np.median(w.astype(np.float32)))
    return out


def arms(img: np.ndarray, dist: int, inten: float) -> np.ndarray:
    """img: filtered image with +inf on masked pixels -> (H, W, [left, right, top, bottom])"""
    H, W = img.shape
    A = np.zeros((H, W, 4), int)

    def arm(r, c, dr, dc):
        if not np.isfinite(img[r, c]):
            return 0
        n = 0
        for k in range(1, dist):
            rr, cc = r + dr * k, c + dc * k
            if not (0 <= rr < H and 0 <= cc < W):
                break
            if not np.isfinite(img[rr, cc]) or abs(img[r, c] - img[rr, cc]) >= inten:
                break
            n += 1
        if n == 0:  # one-pixel minimum toward a valid neighbour
            rr, cc = r + dr, c + dc
            if 0 <= rr < H and 0 <= cc < W and np.isfinite(img[rr, cc]):
                n = 1
        return n

    for r in range(H):
        for c in range(W):
            A[r, c] = [arm(r, c, 0, -1), arm(r, c, 0, 1), arm(r, c, -1, 0), arm(r, c, 1, 0)]
    return A


def shifted(R: np.ndarray, sub: int):
    out = [R]
    for i in range(1, sub):
        w = i / sub
        out.append((R[:, :-1] * (1 - w) + R[:, 1:] * w).astype(np.float32))
    return out


def prepared(L, R, ML, MR, off, sub, dist, inten, valid=0, valid_right=None):
    valid_right = valid if valid_right is None else valid_right
    H, W = L.shape
    Lm = L.astype(np.float32).copy()
    if ML is not None:
        Lm[ML != valid] = np.nan
    Lf = nanmed3(Lm)
    Lf = np.where(np.isnan(Lf), np.inf, Lf)
    Rs = []
    for i, Ri in enumerate(shifted(R.astype(np.float32), sub)):
        Rm = Ri.copy()
        if MR is not None:
            bad = MR != valid_right
            if i == 0:
                Rm[bad] = np.nan
            else:
                Rm[bad[:, :-1] | bad[:, 1:]] = np.nan
        Rf = nanmed3(Rm)
        Rs.append(np.where(np.isnan(Rf), np.inf, Rf))
    AL = arms(Lf[off:H - off, off:W - off] if off else Lf, dist, inten)
    AR = [arms(x[off:H - off, off:x.shape[1] - off] if off else x, dist, inten) for x in Rs]
    return AL, AR


def aggregate(L, R, ML, MR, cv, disps, off, sub, dist, inten, valid=0, valid_right=None):
    """returns (expected cost volume float64, region-size stats)"""
    H, W = L.shape
    AL, AR = prepared(L, R, ML, MR, off, sub, dist, inten, valid, valid_right)
    cvi = cv[off:H - off, off:W - off] if off else cv
    h, w, nd = cvi.shape
    out = cvi.astype(np.float64).copy()
    big_regions = 0
    cut_arms = 0
    for di, d in enumerate(disps):
        i = int((d % 1) * sub)
        ar = AR[i]
        for r in range(h):
            for c in range(w):
                x = c + d
                if x < 0 or x >= ar.shape[1]:
                    continue  # outside correspondents: input is NaN by construction of the generator
                q = int(x)
                top = min(AL[r, c, 2], ar[r, q, 2])
                bot = min(AL[r, c, 3], ar[r, q, 3])
                s = 0.0
                n = 0
                for rr in range(r - top, r + bot + 1):
                    le = min(AL[rr, c, 0], ar[rr, q, 0])
                    ri = min(AL[rr, c, 1], ar[rr, q, 1])
                    for cc in range(c - le, c + ri + 1):
                        n += 1
                        if not np.isnan(cvi[rr, cc, di]):
                            s += cvi[rr, cc, di]
                if not np.isnan(cvi[r, c, di]):
                    out[r, c, di] = s / n
                    if n >= 5:
                        big_regions += 1
                    if min(top, bot) < dist - 1:
                        cut_arms += 1
    res = cv.astype(np.float64).copy()
    if off:
        res[off:H - off, off:W - off] = out
    else:
        res = out
    return res, big_regions, cut_arms
