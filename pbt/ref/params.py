"""Per-parameter contract of the built-in methods, from the property text and the user guide.

Each entry: step kind, base step configuration (the method), parameter name, default asserted by the property (or
None when only presence is required), values that MUST be accepted, values that MUST be rejected.  Values the text
leaves open (int where float is documented, bool where int is documented, eta >= 1, subpix 6/8, 'mc_cnn', negative
thresholds, ...) are simply not listed: they are never generated as judged values."""
from __future__ import annotations

NO = object()  # "no default asserted"

WRONG_INT = ["3", None, [3], 2.5]
WRONG_FLOAT = ["0.5", None, [0.5]]

MC = {"matching_cost_method": "sad"}
CENSUS = {"matching_cost_method": "census"}
ZNCC = {"matching_cost_method": "zncc"}
SSD = {"matching_cost_method": "ssd"}
CBCA = {"aggregation_method": "cbca"}
WTA = {"disparity_method": "wta"}
MED = {"filter_method": "median"}
BIL = {"filter_method": "bilateral"}
MFI = {"filter_method": "median_for_intervals"}
VAL = {"validation_method": "cross_checking_accurate"}
AMB = {"confidence_method": "ambiguity"}
RISK = {"confidence_method": "risk"}
IB = {"confidence_method": "interval_bounds"}
STD = {"confidence_method": "std_intensity"}
MS = {"multiscale_method": "fixed_zoom_pyramid"}

# not-a-number is outside every bounded numeric domain; the string is turned into the float by update_conf
NOT_A_NUMBER = [float("nan"), "NaN"]

TABLE = [
    # kind, base, param, default, must accept, must reject
    ("matching_cost", MC, "window_size", 5, [1, 3, 5, 7, 11], [0, -1, -3, 2, 4, 6] + WRONG_INT),
    ("matching_cost", SSD, "window_size", 5, [1, 3, 5, 9], [0, -1, 2, 4] + WRONG_INT),
    ("matching_cost", ZNCC, "window_size", 5, [1, 3, 5, 9], [0, -1, 2, 4] + WRONG_INT),
    ("matching_cost", CENSUS, "window_size", 5, [3, 5], [1, 7, 9, 0, -3, 2, 4] + WRONG_INT),
    ("matching_cost", MC, "subpix", 1, [1, 2, 4], [0, -1, -2, 3, 5, 7, "2", None, [2], 1.5]),
    ("matching_cost", CENSUS, "subpix", 1, [1, 2, 4], [0, -2, 3, 5, "2", None]),
    ("matching_cost", ZNCC, "subpix", 1, [1, 2, 4], [0, -2, 3, 5, "2", None]),
    ("matching_cost", MC, "step", NO, [1], [2, 3, 0, -1]),
    ("matching_cost", MC, "matching_cost_method", NO, ["sad", "ssd", "zncc", "census"], ["sadd", "", "SAD", None, 3, ["sad"]]),
    ("aggregation", CBCA, "cbca_intensity", 30.0, [0.5, 30.0, 0.001, 255.0], [0.0, -1.0, -30.0] + NOT_A_NUMBER + WRONG_FLOAT),
    ("aggregation", CBCA, "cbca_distance", 5, [1, 2, 5, 10], [0, -1, -5] + WRONG_INT),
    ("aggregation", CBCA, "aggregation_method", NO, ["cbca"], ["cbcaa", "", None, 1]),
    ("disparity", WTA, "invalid_disparity", -9999, [-9999, 0, -1, 5.5, "NaN", float("nan"), "inf", "-inf"], ["abc", None, [1], {"a": 1}]),
    ("disparity", WTA, "disparity_method", NO, ["wta"], ["wtaa", "", None, 0]),
    ("refinement", {"refinement_method": "vfit"}, "refinement_method", NO, ["vfit", "quadratic"], ["vfitt", "", None, 2]),
    ("filter", MED, "filter_size", 3, [1, 3, 5, 9], [0, -1, -3, 2, 4] + WRONG_INT),
    ("filter", MFI, "filter_size", 3, [1, 3, 5, 9], [0, -1, 2, 4] + WRONG_INT),
    ("filter", BIL, "sigma_color", 2.0, [0.1, 2.0, 50.0], [0.0, -2.0] + NOT_A_NUMBER + WRONG_FLOAT),
    ("filter", BIL, "sigma_space", 6.0, [0.5, 6.0, 20.0], [0.0, -6.0] + NOT_A_NUMBER + WRONG_FLOAT),
    ("filter", MED, "filter_method", NO, ["median", "bilateral", "median_for_intervals"], ["mediann", "", None, 3]),
    ("validation", VAL, "cross_checking_threshold", 1.0, [0, 1, 1.0, 0.5, 2, 10.0], ["1", None, [1]]),
    ("validation", VAL, "interpolated_disparity", NO, ["mc-cnn", "sgm"], ["sgmm", "", 3, ["sgm"]]),
    ("validation", VAL, "validation_method", NO, ["cross_checking_accurate"], ["cross", "", None, 1]),
    ("cost_volume_confidence", AMB, "eta_max", 0.7, [0.1, 0.7, 0.99, 0.01], [0.0, -0.5, 1.0] + NOT_A_NUMBER + WRONG_FLOAT),
    ("cost_volume_confidence", AMB, "eta_step", 0.01, [0.01, 0.1, 0.5], [0.0, -0.01, 1.0] + NOT_A_NUMBER + WRONG_FLOAT),
    ("cost_volume_confidence", RISK, "eta_max", 0.7, [0.1, 0.7, 0.99], [0.0, -0.5, 1.0] + NOT_A_NUMBER + WRONG_FLOAT),
    ("cost_volume_confidence", RISK, "eta_step", 0.01, [0.01, 0.1, 0.5], [0.0, -0.01, 1.0] + NOT_A_NUMBER + WRONG_FLOAT),
    ("cost_volume_confidence", AMB, "normalization", NO, [True, False], ["yes", None, [True]]),
    ("cost_volume_confidence", IB, "possibility_threshold", NO, [0.5, 0.9, 1.0, 0.0], [-0.1, 1.1, "0.9", None] + NOT_A_NUMBER),
    ("cost_volume_confidence", IB, "regularization", NO, [True, False], ["no", None]),
    ("cost_volume_confidence", STD, "confidence_method", NO, ["std_intensity", "ambiguity", "risk", "interval_bounds"],
     ["std", "", None, 7]),
    ("multiscale", MS, "num_scales", 2, [2, 3], [1, 0, -1, 2.0, "2", None]),
    ("multiscale", MS, "scale_factor", 2, [2, 3], [1, 0, -2, 2.0, "2", None]),
    ("multiscale", MS, "marge", 1, [0, 1, 3], [-1, 1.5, "1", None]),
    ("multiscale", MS, "multiscale_method", NO, ["fixed_zoom_pyramid"], ["pyramid", "", None, 2]),
]

# defaults the property lists, per (kind, method key/value) -> {param: default}
DEFAULTS = {}
for kind, base, param, default, _, _ in TABLE:
    if default is not NO:
        DEFAULTS.setdefault((kind, tuple(base.items())[0]), {})[param] = default


def legal_pipeline_around(kind: str, step_cfg: dict):
    """A legal pipeline (ordered list) containing one step of `kind` with the given configuration."""
    mc = ["matching_cost", {"matching_cost_method": "sad", "window_size": 3}]
    disp = ["disparity", {"disparity_method": "wta"}]
    if kind == "matching_cost":
        return [["matching_cost", step_cfg], disp]
    if kind in ("aggregation", "cost_volume_confidence"):
        return [mc, [kind, step_cfg], disp]
    if kind == "disparity":
        return [mc, [kind, step_cfg]]
    return [mc, disp, [kind, step_cfg]]
