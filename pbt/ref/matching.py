"""Naive matching-cost reference: one loop per (row, col, disparity), windows gathered pixel by pixel.

cost = SAD / SSD / census Hamming distance / ZNCC (0 when a window has zero variance) between the window centred on
the left pixel and the window centred at column + d in the right image (right samples linearly interpolated at
fractional positions).  NaN exactly when: d outside the pixel's [min,max]; a window leaves its image; a window
touches a no-data pixel (for an interpolated sample: either neighbour); the left centre or the right centre (either
interpolation neighbour) is masked invalid."""
from __future__ import annotations

import math

import numpy as np


def interp(row: np.ndarray, x: float):
    k = math.floor(x)
    w = x - k
    if w == 0:
        return row[k] if 0 <= k < len(row) else None
    if k < 0 or k + 1 >= len(row):
        return None
    return np.float32(np.float32(1 - w) * row[k] + np.float32(w) * row[k + 1])


def axis(gmin: int, gmax: int, sub: int):
    return [gmin + i / sub for i in range((gmax - gmin) * sub + 1)]


def cost_volume(L, R, ML, MR, dmin, dmax, meth, w, sub, valid=0, nodata=1):
    """L, R: 2D float arrays (the selected band).  dmin/dmax: scalars or (H, W) grids.  Returns (axis, volume)."""
    H, W = L.shape
    h = w // 2
    gmin, gmax = int(np.min(dmin)), int(np.max(dmax))
    disps = axis(gmin, gmax, sub)
    out = np.full((H, W, len(disps)), np.nan)
    z = np.zeros((H, W), bool)
    nodL = (ML == nodata) if ML is not None else z
    invL = ((ML != valid) & (ML != nodata)) if ML is not None else z
    nodR = (MR == nodata) if MR is not None else z
    invR = ((MR != valid) & (MR != nodata)) if MR is not None else z
    dmn = np.broadcast_to(dmin, (H, W))
    dmx = np.broadcast_to(dmax, (H, W))
    for r in range(h, H - h):
        for c in range(h, W - h):
            if invL[r, c]:
                continue
            if nodL[r - h:r + h + 1, c - h:c + h + 1].any():
                continue
            lw = L[r - h:r + h + 1, c - h:c + h + 1].astype(np.float64).ravel()
            for di, d in enumerate(disps):
                if d < dmn[r, c] or d > dmx[r, c]:
                    continue
                x = c + d
                k = math.floor(x)
                nb = [k] if x == k else [k, k + 1]
                if any(not (0 <= q < W) for q in nb) or any(invR[r, q] for q in nb):
                    continue
                ok = True
                rw = []
                for i in range(-h, h + 1):
                    for j in range(-h, h + 1):
                        xx = c + j + d
                        kk = math.floor(xx)
                        nbs = [kk] if xx == kk else [kk, kk + 1]
                        if any(not (0 <= q < W) for q in nbs) or any(nodR[r + i, q] for q in nbs):
                            ok = False
                            break
                        rw.append(interp(R[r + i], xx))
                    if not ok:
                        break
                if not ok:
                    continue
                rwa = np.array(rw, dtype=np.float64)
                if meth == "sad":
                    v = np.abs(lw - rwa).sum()
                elif meth == "ssd":
                    v = ((lw - rwa) ** 2).sum()
                elif meth == "census":
                    v = np.sum((lw > lw[len(lw) // 2]) != (rwa > rwa[len(rwa) // 2]))
                else:
                    vl, vr = lw.var(), rwa.var()
                    v = 0.0 if vl <= 1e-12 or vr <= 1e-12 else ((lw * rwa).mean() - lw.mean() * rwa.mean()) / math.sqrt(vl * vr)
                out[r, c, di] = v
    return np.array(disps), out
