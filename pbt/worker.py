"""Worker process: runs one shard of one sub-check, or the pre-flight (known-finding witnesses + corpus), or a
replay.  Always writes a JSON result file; never prints verdict lines itself."""
from __future__ import annotations

import glob
import importlib
import json
import os
import sys
import time
import traceback


def _load(prop: str):
    return importlib.import_module(f"pbt.props.{prop.lower()}")


def main(argv) -> int:
    mode, prop, out = argv[0], argv[1], argv[2]
    t0 = time.time()
    res = {"mode": mode, "prop": prop, "status": "ok"}
    try:
        from . import env

        env.bootstrap()
        from . import core

        mod = _load(prop)
        checks = {c.name: c for c in mod.CHECKS}
        known_entries = core.load_known(prop)
        known = {e["signature"] for e in known_entries if e.get("status") == "known"}
        if mode == "shard":
            check, tier, seed, shard, nshards, n = argv[3], argv[4], int(argv[5]), int(argv[6]), int(argv[7]), int(argv[8])
            chk = checks[check]
            ctx = core.Ctx(prop=prop, check=check, tier=tier, known=known)
            if chk.custom is not None:
                chk.custom(ctx, tier, core.derive_seed(seed, prop, check, shard), shard, nshards, n)
            elif chk.enumerate is not None:
                core.run_enumeration(ctx, chk.enumerate(tier, shard, nshards), chk.body)
            else:
                core.run_hypothesis(ctx, chk.strategy(), chk.body, n, core.derive_seed(seed, prop, check, shard))
            res.update(ctx.export())
        elif mode == "pre":
            lines = []
            viols = []
            n_corpus = 0
            for e in known_entries:
                chk = checks[e["check"]]
                ctx = core.Ctx(prop=prop, check=e["check"], strict=True, known=set())
                got = None
                try:
                    core.guarded(ctx, chk.body, e["witness"])
                except core.Violation as v:
                    got = v
                if e.get("status") == "known":
                    if got is not None and got.signature == e["signature"]:
                        lines.append(f"KNOWN-FINDING: property={prop} {e['signature']} — {e['what']}")
                    elif got is not None:
                        viols.append({"signature": got.signature, "detail": got.detail, "payload": e["witness"],
                                      "check": e["check"], "digest": core.digest(e["witness"])})
                    else:
                        lines.append(f"NOTE: known finding {e['signature']} no longer reproduces on its witness")
                else:  # fixed: suppresses nothing, the witness is a regression input
                    n_corpus += 1
                    if got is not None:
                        viols.append({"signature": got.signature, "detail": got.detail, "payload": e["witness"],
                                      "check": e["check"], "digest": core.digest(e["witness"])})
            for path in sorted(glob.glob(os.path.join(core.VERIF_DIR, "corpus", prop, "*.json"))):
                with open(path) as f:
                    item = json.load(f)
                chk = checks[item["check"]]
                ctx = core.Ctx(prop=prop, check=item["check"], known=known)
                n_corpus += 1
                try:
                    core.guarded(ctx, chk.body, item["payload"])
                except core.Violation as v:
                    viols.append({"signature": v.signature, "detail": v.detail, "payload": item["payload"],
                                  "check": item["check"], "digest": core.digest(item["payload"])})
            res.update({"lines": lines, "violations": viols, "corpus_replayed": n_corpus})
        elif mode == "replay":
            path = argv[3]
            with open(path) as f:
                item = json.load(f)
            chk = checks[item["check"]]
            ctx = core.Ctx(prop=prop, check=item["check"], known=known)
            viols = []
            try:
                core.guarded(ctx, chk.body, item["payload"])
            except core.Violation as v:
                viols.append({"signature": v.signature, "detail": v.detail, "check": item["check"]})
            res.update({"violations": viols, "excluded_known": ctx.excluded_known})
        else:
            raise ValueError(mode)
    except BaseException:  # noqa: BLE001
        res["status"] = "harness_error"
        res["error"] = traceback.format_exc()
    res["wall_s"] = time.time() - t0
    tmp = out + ".tmp"
    with open(tmp, "w") as f:
        json.dump(res, f)
    os.replace(tmp, out)
    return 0


if __name__ == "__main__":
    sys.exit(main(sys.argv[1:]))
