"""CLI of the checks.

  ./check C07 --tier quick|thorough        run every sub-check of the property, write evidence/C07.json
  ./check C07 --replay <file>              re-execute the oracle on a saved payload (no Hypothesis)
  ./check --list

Exit codes: 0 = held on everything explored (known findings are printed as KNOWN-FINDING lines),
1 = violation (line `VIOLATION property=<id> replay=<path>`), 2 = harness error / inconclusive.
"""
from __future__ import annotations

import argparse
import importlib
import json
import os
import shutil
import subprocess
import sys
import time
from concurrent.futures import ThreadPoolExecutor

from . import env

VERIF_DIR = env.VERIF_DIR
PROPS = [f"C{i:02d}" for i in range(1, 21)]


def _py() -> str:
    return sys.executable


def _run_worker(args, out, environ, log):
    with open(log, "w") as lf:
        p = subprocess.run([_py(), "-m", "pbt.worker"] + args, env=environ, cwd=VERIF_DIR, stdout=lf, stderr=lf)
    if not os.path.exists(out):
        with open(log) as lf:
            tail = lf.read()[-3000:]
        return {"status": "harness_error", "error": f"worker died rc={p.returncode}\n{tail}"}
    with open(out) as f:
        return json.load(f)


def ensure_warm(environ) -> None:
    cdir = environ["NUMBA_CACHE_DIR"]
    marker = os.path.join(cdir, ".warm")
    if os.path.exists(marker):
        return
    os.makedirs(cdir, exist_ok=True)
    # disk hygiene: drop caches of other trees that were not used for 6 hours (never /repo's own)
    root = os.path.dirname(cdir)
    keep = env.tree_hash("/repo") if os.path.isdir("/repo/pandora") else "-"
    for d in os.listdir(root):
        full = os.path.join(root, d)
        if full != cdir and not d.startswith(keep) and time.time() - os.path.getmtime(full) > 6 * 3600:
            shutil.rmtree(full, ignore_errors=True)
    t0 = time.time()
    p = subprocess.run([_py(), "-m", "pbt.warm"], env=environ, cwd=VERIF_DIR, capture_output=True, text=True)
    if p.returncode != 0:
        # A tree that cannot even be imported / run on the smoke pipeline: let the checks themselves report it.
        sys.stderr.write(f"[warm] failed rc={p.returncode} ({time.time()-t0:.0f}s)\n{p.stderr[-2000:]}\n")
        return
    with open(marker, "w") as f:
        f.write("ok\n")
    sys.stderr.write(f"[warm] numba cache built in {time.time()-t0:.0f}s\n")


def write_replay(prop, check, v) -> str:
    d = os.path.join(VERIF_DIR, "replays", prop)
    os.makedirs(d, exist_ok=True)
    path = os.path.join(d, f"{check}-{v['digest']}.json")
    with open(path, "w") as f:
        json.dump({"property": prop, "check": check, "signature": v["signature"], "detail": v["detail"],
                   "payload": v["payload"]}, f, indent=1)
    return path


def cmd_run(prop: str, tier: str, only=None) -> int:
    t0 = time.time()
    seed = int(os.environ.get("VERIF_SEED", "1"))
    jobs = int(os.environ.get("VERIF_JOBS", "16"))
    work = os.path.join(VERIF_DIR, ".work", f"{prop}-{os.getpid()}")
    shutil.rmtree(work, ignore_errors=True)
    os.makedirs(work)
    environ = env.base_env()
    ensure_warm(environ)
    os.environ["NUMBA_CACHE_DIR"] = environ["NUMBA_CACHE_DIR"]
    env.bootstrap()
    mod = importlib.import_module(f"pbt.props.{prop.lower()}")
    try:
        tasks = []
        pre_out = os.path.join(work, "pre.json")
        tasks.append(("pre", ["pre", prop, pre_out], pre_out, environ))
        for chk in mod.CHECKS:
            if only and chk.name not in only:
                continue
            nshards, n = chk.budget[tier]
            e = dict(environ)
            e["NUMBA_NUM_THREADS"] = str(chk.threads)
            for s in range(nshards):
                out = os.path.join(work, f"{chk.name}-{s}.json")
                tasks.append((chk.name, ["shard", prop, out, chk.name, tier, str(seed), str(s), str(nshards), str(n)],
                              out, e))
        with ThreadPoolExecutor(max_workers=jobs) as ex:
            futs = [(name, ex.submit(_run_worker, a, out, e, out + ".log")) for name, a, out, e in tasks]
            results = [(name, f.result()) for name, f in futs]
    finally:
        pass

    harness_errors = []
    violations = []  # (check, v)
    lines = []
    per_check = {}
    corpus_replayed = 0
    for name, r in results:
        if r.get("status") != "ok":
            harness_errors.append((name, r.get("error", "?")))
            continue
        if name == "pre":
            lines += r["lines"]
            corpus_replayed = r["corpus_replayed"]
            for v in r["violations"]:
                violations.append((v["check"], v))
            continue
        agg = per_check.setdefault(name, {"evaluations": 0, "nontrivial": set(), "classes": {}, "excluded_known": {},
                                          "unspecified": 0, "judged": 0, "samples": [], "shards": 0})
        agg["shards"] += 1
        agg["evaluations"] += r["evaluations"]
        agg["nontrivial"].update(r["nontrivial"])
        agg["unspecified"] += r["unspecified"]
        agg["judged"] += r["judged"]
        for k, n in r["classes"].items():
            agg["classes"][k] = agg["classes"].get(k, 0) + n
        for k, n in r["excluded_known"].items():
            agg["excluded_known"][k] = agg["excluded_known"].get(k, 0) + n
        if len(agg["samples"]) < 2:
            agg["samples"] += r["samples"][: 2 - len(agg["samples"])]
        for v in r["violations"]:
            violations.append((name, v))

    # ---- evidence
    evaluations = sum(a["evaluations"] for a in per_check.values())
    nontrivial = sum(len(a["nontrivial"]) for a in per_check.values())
    samples = []
    for name, a in per_check.items():
        for s in a["samples"]:
            samples.append({"check": name, "case": s})
    excluded = {}
    for a in per_check.values():
        for k, n in a["excluded_known"].items():
            excluded[k] = excluded.get(k, 0) + n
    checks_spec = {c.name: c for c in mod.CHECKS}
    evidence = {
        "property_id": prop,
        "tier": tier,
        "seed": seed,
        "level": "exploration",
        "coverage": {
            "evaluations": evaluations,
            "distinct_nontrivial": nontrivial,
            "rule": mod.RULE,
            "samples": samples[:8],
            "exhaustive": bool(per_check) and all(checks_spec[n].exhaustive for n in per_check),
            "per_check": {
                name: {
                    "evaluations": a["evaluations"],
                    "distinct_nontrivial": len(a["nontrivial"]),
                    "shards": a["shards"],
                    "exhaustive_subspace": checks_spec[name].exhaustive,
                    "classes": dict(sorted(a["classes"].items())),
                    "judged_items": a["judged"],
                    "unspecified_items": a["unspecified"],
                    "excluded_known": a["excluded_known"],
                }
                for name, a in per_check.items()
            },
            "excluded_known": excluded,
            "corpus_replayed": corpus_replayed,
            "known_findings_reported": lines,
            "tree_hash": env.tree_hash(),
            "harness_errors": len(harness_errors),
        },
        "assumptions": list(getattr(mod, "ASSUMPTIONS", [])),
        "wall_s": round(time.time() - t0, 2),
        "violations": len(violations),
    }
    if not harness_errors or violations:
        # evidence is only ever written for /repo itself; runs against a scratch tree (sensitivity mutants) keep theirs apart
        evdir = os.path.join(VERIF_DIR, "evidence") if os.path.realpath(env.REPO) == "/repo" else os.path.join(
            VERIF_DIR, ".work", "evidence-scratch")
        os.makedirs(evdir, exist_ok=True)
        with open(os.path.join(evdir, f"{prop}.json"), "w") as f:
            json.dump(evidence, f, indent=1)

    for ln in lines:
        print(ln)
    for name, a in per_check.items():
        print(f"[{prop}/{name}] cases={a['evaluations']} nontrivial={len(a['nontrivial'])} "
              f"excluded_known={sum(a['excluded_known'].values())} classes={dict(sorted(a['classes'].items()))}")
    rc = 0
    seen = set()
    for name, v in violations:
        key = (name, v["signature"])
        if key in seen:
            continue
        seen.add(key)
        path = write_replay(prop, name, v)
        print(f"VIOLATION property={prop} replay={path}")
        print(f"  signature={v['signature']} detail={v['detail'][:400]}")
        rc = 1
    if harness_errors:
        for name, err in harness_errors[:3]:
            sys.stderr.write(f"[harness-error] {prop}/{name}:\n{err[-3000:]}\n")
        if rc == 0:
            rc = 2
    if rc != 2:
        shutil.rmtree(work, ignore_errors=True)
    print(f"[{prop}] tier={tier} seed={seed} evaluations={evaluations} distinct_nontrivial={nontrivial} "
          f"violations={len(seen)} wall={time.time()-t0:.1f}s rc={rc}")
    return rc


def cmd_replay(prop: str, path: str) -> int:
    environ = env.base_env()
    ensure_warm(environ)
    work = os.path.join(VERIF_DIR, ".work", f"{prop}-replay-{os.getpid()}")
    os.makedirs(work, exist_ok=True)
    out = os.path.join(work, "replay.json")
    r = _run_worker(["replay", prop, out, os.path.abspath(path)], out, environ, out + ".log")
    shutil.rmtree(work, ignore_errors=True)
    if r.get("status") != "ok":
        sys.stderr.write(r.get("error", "?") + "\n")
        return 2
    for k in r.get("excluded_known", {}):
        print(f"KNOWN-FINDING: property={prop} {k}")
    if r["violations"]:
        v = r["violations"][0]
        print(f"VIOLATION property={prop} replay={os.path.abspath(path)}")
        print(f"  signature={v['signature']} detail={v['detail'][:400]}")
        return 1
    print(f"[{prop}] replay passes")
    return 0


def main(argv=None) -> int:
    ap = argparse.ArgumentParser()
    ap.add_argument("prop", nargs="?")
    ap.add_argument("--tier", default=os.environ.get("VERIF_TIER", "quick"), choices=["quick", "thorough"])
    ap.add_argument("--replay")
    ap.add_argument("--only", action="append")
    ap.add_argument("--list", action="store_true")
    a = ap.parse_args(argv)
    if a.list:
        for p in PROPS:
            print(p)
        return 0
    if not a.prop:
        ap.error("property id required")
    prop = a.prop.upper()
    try:
        if a.replay:
            return cmd_replay(prop, a.replay)
        return cmd_run(prop, a.tier, a.only)
    except SystemExit:
        raise
    except BaseException:  # noqa: BLE001
        import traceback

        traceback.print_exc()
        return 2


if __name__ == "__main__":
    sys.exit(main())
