"""Dataset builders: the same shapes `create_dataset_from_inputs`, `get_metadata`, the matching-cost step and the
disparity step deliver, built from plain (JSON-able) Python values."""
from __future__ import annotations

import copy
from typing import Any, Dict, List, Optional, Sequence

import numpy as np
import xarray as xr

from .core import fl


def arr(x, dtype=np.float32) -> np.ndarray:
    """nested lists (with 'NaN'/'inf' strings) -> ndarray"""

    def conv(v):
        if isinstance(v, list):
            return [conv(i) for i in v]
        return fl(v)

    return np.array(conv(x), dtype=dtype)


def image_dataset(
    im,
    msk=None,
    disp=None,
    valid_pixels: int = 0,
    no_data_mask: int = 1,
    bands: Optional[Sequence[str]] = None,
    row0: int = 0,
    col0: int = 0,
    no_data_img=-9999,
    classif=None,
    classif_bands=None,
    segm=None,
) -> xr.Dataset:
    """Image dataset as `create_dataset_from_inputs` returns it.
    im: 2D (row, col) or 3D (band, row, col) array.  disp: None | (min, max) ints | (grid_min, grid_max) arrays."""
    im = np.asarray(im, dtype=np.float32)
    if im.ndim == 2:
        ny, nx = im.shape
        data = {"im": (["row", "col"], im.copy())}
        coords: Dict[str, Any] = {"row": np.arange(row0, ny + row0), "col": np.arange(col0, nx + col0)}
    else:
        _, ny, nx = im.shape
        data = {"im": (["band_im", "row", "col"], im.copy())}
        coords = {"band_im": list(bands), "row": np.arange(row0, ny + row0), "col": np.arange(col0, nx + col0)}
    ds = xr.Dataset(
        data,
        coords=coords,
        attrs={"crs": None, "transform": None, "valid_pixels": valid_pixels, "no_data_mask": no_data_mask},
    )
    if disp is not None:
        ds.coords["band_disp"] = ["min", "max"]
        dmin, dmax = disp
        if np.ndim(dmin) == 0:
            ds["disparity"] = xr.DataArray(
                np.array([np.full((ny, nx), dmin), np.full((ny, nx), dmax)]), dims=["band_disp", "row", "col"]
            )
            ds.attrs["disparity_source"] = [int(dmin), int(dmax)]
        else:
            ds["disparity"] = xr.DataArray(
                np.array([np.asarray(dmin, dtype=np.float32), np.asarray(dmax, dtype=np.float32)]),
                dims=["band_disp", "row", "col"],
            )
            ds.attrs["disparity_source"] = "grid.tif"
    else:
        ds.attrs["disparity_source"] = None
    if classif is not None:
        ds.coords["band_classif"] = list(classif_bands)
        ds["classif"] = xr.DataArray(np.asarray(classif, dtype=np.int16), dims=["band_classif", "row", "col"])
    if segm is not None:
        ds["segm"] = xr.DataArray(np.asarray(segm, dtype=np.int16), dims=["row", "col"])
    ds.attrs["no_data_img"] = no_data_img
    if msk is not None:
        ds["msk"] = xr.DataArray(np.asarray(msk, dtype=np.int16).copy(), dims=["row", "col"])
    return ds


def metadata_dataset(ds: xr.Dataset) -> xr.Dataset:
    """What `get_metadata` gives for the file `ds` was read from (coordinates, disparity, classif, segm)."""
    bands = list(ds.coords["band_im"].data) if "band_im" in ds.coords else [None]
    md = xr.Dataset(
        data_vars={},
        coords={"band_im": bands, "row": np.arange(ds.sizes["row"]), "col": np.arange(ds.sizes["col"])},
    )
    if "disparity" in ds:
        md.coords["band_disp"] = ["min", "max"]
        md["disparity"] = xr.DataArray(ds["disparity"].data.copy(), dims=["band_disp", "row", "col"])
    md.attrs["disparity_source"] = copy.deepcopy(ds.attrs.get("disparity_source"))
    if "classif" in ds:
        md.coords["band_classif"] = list(ds.coords["band_classif"].data)
        md["classif"] = xr.DataArray(ds["classif"].data.copy(), dims=["band_classif", "row", "col"])
    if "segm" in ds:
        md["segm"] = xr.DataArray(ds["segm"].data.copy(), dims=["row", "col"])
    return md


def disparity_dataset(
    disp,
    mask,
    dmin: int,
    dmax: int,
    offset: int = 0,
    conf: Optional[Dict[str, Any]] = None,
    extra_attrs: Optional[dict] = None,
    row0: int = 0,
    col0: int = 0,
) -> xr.Dataset:
    """Disparity dataset in the shape the disparity step delivers."""
    disp = np.asarray(disp, dtype=np.float32)
    ny, nx = disp.shape
    ds = xr.Dataset(
        {
            "disparity_map": (["row", "col"], disp.copy()),
            "validity_mask": (["row", "col"], np.asarray(mask, dtype=np.uint16).copy()),
        },
        coords={"row": np.arange(row0, ny + row0), "col": np.arange(col0, nx + col0)},
    )
    ds["disparity_interval"] = xr.DataArray([dmin, dmax], coords=[("disparity", ["min", "max"])])
    if conf:
        names = list(conf)
        data = np.stack([np.asarray(conf[n], dtype=np.float32) for n in names], axis=2)
        ds["confidence_measure"] = xr.DataArray(
            data, coords=[ds.coords["row"], ds.coords["col"], names], dims=["row", "col", "indicator"]
        )
    ds.attrs = {
        "crs": None,
        "transform": None,
        "valid_pixels": 0,
        "no_data_mask": 1,
        "no_data_img": -9999,
        "disparity_source": [dmin, dmax],
        "sampling_interval": 1,
        "col_to_compute": np.arange(col0, nx + col0),
        "window_size": 2 * offset + 1,
        "subpixel": 1,
        "band_correl": None,
        "offset_row_col": offset,
        "measure": "sad",
        "type_measure": "min",
        "cmax": 100.0,
    }
    if extra_attrs:
        ds.attrs.update(extra_attrs)
    return ds


def cost_volume_dataset(
    cv,
    disps: Sequence[float],
    type_measure: str = "min",
    offset: int = 0,
    subpix: int = 1,
    mask=None,
    conf: Optional[Dict[str, Any]] = None,
    measure: str = "sad",
    cmax: float = 100.0,
    row0: int = 0,
    col0: int = 0,
) -> xr.Dataset:
    """Cost-volume dataset in the shape the matching-cost step delivers (row, col, disp)."""
    cv = np.asarray(cv, dtype=np.float32)
    ny, nx, nd = cv.shape
    ds = xr.Dataset(
        {"cost_volume": (["row", "col", "disp"], cv.copy())},
        coords={"row": np.arange(row0, ny + row0), "col": np.arange(col0, nx + col0),
                "disp": np.asarray(disps, dtype=np.float64 if subpix != 1 else np.int64)},
    )
    ds["validity_mask"] = xr.DataArray(
        np.zeros((ny, nx), dtype=np.uint16) if mask is None else np.asarray(mask, dtype=np.uint16).copy(),
        dims=["row", "col"],
    )
    if conf:
        names = list(conf)
        data = np.stack([np.asarray(conf[n], dtype=np.float32) for n in names], axis=2)
        ds["confidence_measure"] = xr.DataArray(
            data, coords=[ds.coords["row"], ds.coords["col"], names], dims=["row", "col", "indicator"]
        )
    ds.attrs = {
        "crs": None,
        "transform": None,
        "valid_pixels": 0,
        "no_data_mask": 1,
        "no_data_img": -9999,
        "disparity_source": [int(np.floor(min(disps))), int(np.ceil(max(disps)))],
        "sampling_interval": 1,
        "col_to_compute": np.arange(col0, nx + col0),
        "window_size": 2 * offset + 1,
        "subpixel": subpix,
        "band_correl": None,
        "offset_row_col": offset,
        "measure": measure,
        "type_measure": type_measure,
        "cmax": cmax,
    }
    return ds


def snapshot(ds: Optional[xr.Dataset]) -> dict:
    """Deep, comparable copy of everything observable in a dataset."""
    if ds is None:
        return {"__none__": True}
    out = {"vars": {}, "coords": {}, "attrs": {}}
    for k in ds.data_vars:
        out["vars"][str(k)] = (tuple(ds[k].dims), np.array(ds[k].data, copy=True))
    for k in ds.coords:
        out["coords"][str(k)] = np.array(ds.coords[k].data, copy=True)
    out["attrs"] = copy.deepcopy(dict(ds.attrs))
    return out


def _eq(a, b) -> bool:
    if isinstance(a, np.ndarray) or isinstance(b, np.ndarray):
        a, b = np.asarray(a), np.asarray(b)
        if a.shape != b.shape or a.dtype != b.dtype:
            return False
        if a.dtype.kind in "fc":
            return bool(np.array_equal(a, b, equal_nan=True))
        if a.dtype.kind == "O":
            return a.tolist() == b.tolist()
        return bool(np.array_equal(a, b))
    if isinstance(a, float) and isinstance(b, float) and np.isnan(a) and np.isnan(b):
        return True
    if isinstance(a, dict) and isinstance(b, dict):
        return a.keys() == b.keys() and all(_eq(a[k], b[k]) for k in a)
    if isinstance(a, (list, tuple)) and isinstance(b, (list, tuple)):
        return len(a) == len(b) and all(_eq(x, y) for x, y in zip(a, b))
    try:
        return bool(a == b)
    except Exception:  # noqa: BLE001
        return False


def snapshot_diff(a: dict, b: dict) -> List[str]:
    """names of the parts that differ between two snapshots"""
    if a.get("__none__") or b.get("__none__"):
        return [] if a.get("__none__") == b.get("__none__") else ["dataset-presence"]
    diffs = []
    for part in ("vars", "coords"):
        for k in sorted(set(a[part]) | set(b[part])):
            if k not in a[part] or k not in b[part]:
                diffs.append(f"{part}.{k}:presence")
                continue
            x, y = a[part][k], b[part][k]
            if part == "vars":
                if x[0] != y[0] or not _eq(x[1], y[1]):
                    diffs.append(f"var.{k}")
            elif not _eq(x, y):
                diffs.append(f"coord.{k}")
    for k in sorted(set(a["attrs"]) | set(b["attrs"])):
        if k not in a["attrs"] or k not in b["attrs"] or not _eq(a["attrs"][k], b["attrs"][k]):
            diffs.append(f"attr.{k}")
    return diffs
