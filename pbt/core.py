"""Shared runtime of the checks: contexts, violations, statistics, Hypothesis driver, known findings."""
from __future__ import annotations

import hashlib
import json
import math
import os
import time
import traceback
from dataclasses import dataclass, field
from typing import Any, Callable, Dict, List, Optional

from . import env

VERIF_DIR = env.VERIF_DIR


# ----------------------------------------------------------------------------------------------------------------
# canonical JSON
# ----------------------------------------------------------------------------------------------------------------
def _canon(o: Any) -> Any:
    import numpy as np

    if isinstance(o, dict):
        return {str(k): _canon(v) for k, v in o.items()}
    if isinstance(o, (list, tuple)):
        return [_canon(v) for v in o]
    if isinstance(o, np.ndarray):
        return _canon(o.tolist())
    if isinstance(o, (np.integer,)):
        return int(o)
    if isinstance(o, (np.floating,)):
        o = float(o)
    if isinstance(o, (np.bool_,)):
        return bool(o)
    if isinstance(o, float):
        if math.isnan(o):
            return "NaN"
        if math.isinf(o):
            return "inf" if o > 0 else "-inf"
        return o
    return o


def dumps(o: Any) -> str:
    return json.dumps(_canon(o), sort_keys=True, separators=(",", ":"))


def digest(o: Any) -> str:
    return hashlib.sha1(dumps(o).encode()).hexdigest()[:16]


def fl(x: Any) -> float:
    """decode a float that may have been canonicalised as 'NaN'/'inf'/'-inf'"""
    if isinstance(x, str):
        return {"NaN": math.nan, "inf": math.inf, "-inf": -math.inf}[x]
    return x


def derive_seed(*parts: Any) -> int:
    h = hashlib.sha256("|".join(str(p) for p in parts).encode()).digest()
    return int.from_bytes(h[:8], "big") % (2**63)


# ----------------------------------------------------------------------------------------------------------------
# violations and contexts
# ----------------------------------------------------------------------------------------------------------------
class Violation(Exception):
    def __init__(self, signature: str, detail: str = ""):
        super().__init__(f"{signature}: {detail}")
        self.signature = signature
        self.detail = detail


class HarnessError(Exception):
    pass


def load_known(prop: str) -> List[dict]:
    p = os.path.join(VERIF_DIR, "known_findings.json")
    if not os.path.exists(p):
        return []
    with open(p) as f:
        data = json.load(f)
    return [e for e in data.get("findings", []) if e.get("property") == prop]


@dataclass
class Ctx:
    prop: str
    check: str
    tier: str = "quick"
    strict: bool = False  # strict: known findings are NOT excluded (witness replay)
    known: set = field(default_factory=set)
    evaluations: int = 0
    nontrivial: set = field(default_factory=set)
    classes: Dict[str, int] = field(default_factory=dict)
    excluded_known: Dict[str, int] = field(default_factory=dict)
    unspecified: int = 0
    judged: int = 0
    samples: List[Any] = field(default_factory=list)
    violations: List[dict] = field(default_factory=list)
    _cur_payload: Any = None

    # -- statistics ------------------------------------------------------------------------------------------
    def case(self, payload: Any, nontrivial: bool, classes=(), sample: Any = None) -> None:
        self.evaluations += 1
        for c in classes:
            self.classes[c] = self.classes.get(c, 0) + 1
        if nontrivial:
            d = digest(payload)
            if d not in self.nontrivial:
                self.nontrivial.add(d)
                if len(self.samples) < 3:
                    s = sample if sample is not None else payload
                    txt = dumps(s)
                    self.samples.append(json.loads(txt) if len(txt) < 3000 else txt[:3000] + "...")

    def cls(self, name: str, n: int = 1) -> None:
        self.classes[name] = self.classes.get(name, 0) + n

    # -- verdicts --------------------------------------------------------------------------------------------
    def violation(self, signature: str, detail: str = "") -> None:
        """Report a discrepancy.  Returns (so the oracle goes on) iff the signature is a listed known finding."""
        if signature in self.known and not self.strict:
            self.excluded_known[signature] = self.excluded_known.get(signature, 0) + 1
            return
        raise Violation(signature, detail)

    def is_known(self, signature: str) -> bool:
        return signature in self.known and not self.strict

    def export(self) -> dict:
        return {
            "check": self.check,
            "evaluations": self.evaluations,
            "nontrivial": sorted(self.nontrivial),
            "classes": self.classes,
            "excluded_known": self.excluded_known,
            "unspecified": self.unspecified,
            "judged": self.judged,
            "samples": self.samples,
            "violations": self.violations,
        }


def pandora_frame(tb) -> Optional[str]:
    """innermost traceback frame lying inside the pandora package (or None)"""
    hit = None
    root = os.path.join(env.REPO, "pandora") + os.sep
    for fs in traceback.extract_tb(tb):
        if os.path.abspath(fs.filename).startswith(root):
            hit = f"{os.path.relpath(fs.filename, env.REPO)}:{fs.name}"
    return hit


def innermost_is_pbt(tb) -> bool:
    frames = traceback.extract_tb(tb)
    if not frames:
        return True
    last = os.path.abspath(frames[-1].filename)
    return last.startswith(os.path.join(VERIF_DIR, "pbt"))


def guarded(ctx: Ctx, body: Callable, payload: Any) -> None:
    """Run a body on a payload.  Violation passes through.  An exception raised from inside pandora (innermost
    pandora frame exists and the exception did not originate in harness code) is a crash violation, because the
    generators only produce inputs inside the accepted domain.  Anything else is a harness error."""
    try:
        body(ctx, payload)
    except Violation:
        raise
    except HarnessError:
        raise
    except Exception as exc:  # noqa: BLE001
        tb = exc.__traceback__
        where = pandora_frame(tb)
        if where is not None and not innermost_is_pbt(tb):
            sig = f"{ctx.prop}/{ctx.check}/crash:{type(exc).__name__}@{where}"
            ctx.violation(sig, "".join(traceback.format_exception_only(type(exc), exc)).strip()[:500])
            return
        raise HarnessError("".join(traceback.format_exception(type(exc), exc, tb))) from exc


# ----------------------------------------------------------------------------------------------------------------
# Hypothesis driver
# ----------------------------------------------------------------------------------------------------------------
SHRINK_BUDGET_S = {"quick": 45.0, "thorough": 240.0}


def run_hypothesis(ctx: Ctx, strategy, body: Callable, n_examples: int, seed_val: int) -> None:
    """Drive `body(ctx, payload)` with payloads drawn from `strategy`.  The first violation is shrunk by
    Hypothesis (time-boxed; the box only limits how small the replay gets, never the verdict)."""
    import hypothesis
    from hypothesis import HealthCheck, Phase, given, settings

    state = {"first_fail_t": None, "best": None, "best_size": None, "harness": None}
    budget = SHRINK_BUDGET_S.get(ctx.tier, 45.0)

    def wrapped(payload):
        if state["harness"] is not None:
            return
        if state["first_fail_t"] is not None and time.time() - state["first_fail_t"] > budget:
            # stop shrinking: only the best known failing payload keeps failing
            if digest(payload) == state["best"]["digest"]:
                raise Violation(state["best"]["signature"], state["best"]["detail"])
            return
        shrinking = state["first_fail_t"] is not None
        saved = (ctx.evaluations, dict(ctx.classes), set(ctx.nontrivial), list(ctx.samples), ctx.judged,
                 ctx.unspecified, dict(ctx.excluded_known)) if shrinking else None
        try:
            guarded(ctx, body, payload)
        except Violation as v:
            if state["first_fail_t"] is None:
                state["first_fail_t"] = time.time()
            size = len(dumps(payload))
            if state["best"] is None or v.signature == state["best"]["signature"]:
                if state["best"] is None or size <= state["best_size"]:
                    state["best"] = {
                        "signature": v.signature,
                        "detail": v.detail,
                        "payload": json.loads(dumps(payload)),
                        "digest": digest(payload),
                    }
                    state["best_size"] = size
                raise
            # a different signature while shrinking: do not let the shrinker wander to another bug
            return
        except HarnessError as h:
            state["harness"] = str(h)
            raise
        finally:
            if shrinking and saved is not None:
                (ctx.evaluations, ctx.classes, ctx.nontrivial, ctx.samples, ctx.judged, ctx.unspecified,
                 ctx.excluded_known) = saved

    test = given(strategy)(wrapped)
    test = settings(
        max_examples=n_examples,
        database=None,
        deadline=None,
        derandomize=False,
        report_multiple_bugs=False,
        print_blob=False,
        phases=[Phase.generate, Phase.shrink],
        suppress_health_check=list(HealthCheck),
    )(test)
    test = hypothesis.seed(seed_val)(test)
    try:
        test()
    except Violation:
        pass
    except HarnessError:
        raise
    except BaseException as exc:  # Flaky, etc.
        if state["harness"] is not None:
            raise HarnessError(state["harness"])
        if state["best"] is None:
            raise HarnessError("hypothesis failure without a recorded violation:\n" + traceback.format_exc()) from exc
    if state["harness"] is not None:
        raise HarnessError(state["harness"])
    if state["best"] is not None:
        ctx.violations.append(state["best"])


def run_enumeration(ctx: Ctx, payloads, body: Callable, stop_after: int = 3) -> None:
    """Drive body over an explicit list of payloads (exhaustive sub-spaces).  Collects up to `stop_after`
    violations with distinct signatures."""
    seen = set()
    for payload in payloads:
        try:
            guarded(ctx, body, payload)
        except Violation as v:
            if v.signature not in seen:
                seen.add(v.signature)
                ctx.violations.append(
                    {
                        "signature": v.signature,
                        "detail": v.detail,
                        "payload": json.loads(dumps(payload)),
                        "digest": digest(payload),
                    }
                )
                if len(seen) >= stop_after:
                    return


@dataclass
class Check:
    """One executable sub-check of a property.

    body(ctx, payload): judge one case; calls ctx.case(...) once and ctx.violation(...) on discrepancies.
    strategy(): returns a Hypothesis strategy of JSON-able payloads  (or)
    enumerate(tier, shard, nshards): returns an iterable of payloads (exhaustive sub-space).
    budget: tier -> (nshards, examples per shard)
    """

    name: str
    body: Callable
    strategy: Optional[Callable] = None
    enumerate: Optional[Callable] = None
    budget: Dict[str, tuple] = field(default_factory=lambda: {"quick": (4, 50), "thorough": (16, 500)})
    exhaustive: bool = False
    threads: int = 2
    # custom(ctx, tier, seed, shard, nshards, n): a check that drives itself (stateful machines, sub-process
    # differentials); it appends to ctx.violations / calls ctx.case like the generic drivers do
    custom: Optional[Callable] = None
