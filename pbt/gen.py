"""Shared Hypothesis strategies.  All payloads are JSON-able; `materialise_*` turn them into numpy arrays."""
from __future__ import annotations

import math
from typing import Optional

import numpy as np
from hypothesis import strategies as st


# ----------------------------------------------------------------------------------------------------------------
# image pairs
# ----------------------------------------------------------------------------------------------------------------
@st.composite
def sparse_mask(draw, H, W, max_entries=6):
    """None (no mask) or a list of [r, c, kind] / ['rect', r0, c0, r1, c1, kind]; kind 1 = no-data, 2 = invalid"""
    if draw(st.integers(0, 2)) == 0:
        return None
    n = draw(st.integers(0, max_entries))
    ent = []
    for _ in range(n):
        if draw(st.integers(0, 5)) == 0:
            r0, c0 = draw(st.integers(0, H - 1)), draw(st.integers(0, W - 1))
            ent.append(["rect", r0, c0, min(H - 1, r0 + draw(st.integers(0, 2))), min(W - 1, c0 + draw(st.integers(0, 3))),
                        draw(st.sampled_from([1, 2, 2]))])
        else:
            ent.append([draw(st.integers(0, H - 1)), draw(st.integers(0, W - 1)), draw(st.sampled_from([1, 2, 2, 3]))])
    return ent


@st.composite
def image_pair(draw, min_rows=5, max_rows=12, min_cols=6, max_cols=14, max_val=20, masks=True, tile_max=None,
               conventions=True):
    """Integer-valued radiometry.  mode 'indep': both images explicit; mode 'shift': right = left shifted by s
    columns (edges from `fill`) with a few perturbed pixels.  Large images: a small tile is repeated (tile_max)."""
    H = draw(st.integers(min_rows, max_rows))
    W = draw(st.integers(min_cols, max_cols))
    if tile_max and (H > tile_max or W > tile_max):
        th, tw = draw(st.integers(3, tile_max)), draw(st.integers(3, tile_max))
    else:
        th, tw = H, W
    hi = draw(st.sampled_from([max_val, max_val, 3, 255, 4095])) if max_val >= 20 else max_val
    px = st.integers(0, hi)
    left = draw(st.lists(st.lists(px, min_size=tw, max_size=tw), min_size=th, max_size=th))
    mode = draw(st.sampled_from(["indep", "shift", "shift"]))
    p = {"H": H, "W": W, "left": left, "mode": mode}
    if mode == "indep":
        p["right"] = draw(st.lists(st.lists(px, min_size=tw, max_size=tw), min_size=th, max_size=th))
    else:
        p["shift"] = draw(st.integers(-3, 3))
        p["fill"] = draw(st.lists(px, min_size=4, max_size=4))
        npert = draw(st.integers(0, 8))
        p["pert"] = [[draw(st.integers(0, H - 1)), draw(st.integers(0, W - 1)), draw(px)] for _ in range(npert)]
    npl = draw(st.integers(0, 4)) if (th, tw) != (H, W) else 0
    p["patch_left"] = [[draw(st.integers(0, H - 1)), draw(st.integers(0, W - 1)), draw(px)] for _ in range(npl)]
    if masks:
        p["mask_left"] = draw(sparse_mask(H, W))
        p["mask_right"] = draw(sparse_mask(H, W))
    else:
        p["mask_left"] = p["mask_right"] = None
    if conventions and draw(st.integers(0, 3)) == 0:
        p["valid"], p["nodata"] = draw(st.sampled_from([(5, 7), (1, 0), (0, 255), (2, 1)]))
    else:
        p["valid"], p["nodata"] = 0, 1
    return p


def _tile(t, H, W):
    a = np.array(t, dtype=np.float32)
    th, tw = a.shape
    return np.tile(a, (math.ceil(H / th), math.ceil(W / tw)))[:H, :W].copy()


def _mask(entries, H, W, valid, nodata) -> Optional[np.ndarray]:
    if entries is None:
        return None
    other = max(valid, nodata) + 1
    m = np.full((H, W), valid, dtype=np.int16)
    for e in entries:
        if e[0] == "rect":
            _, r0, c0, r1, c1, k = e
            m[r0:r1 + 1, c0:c1 + 1] = nodata if k == 1 else other + (k - 2)
        else:
            r, c, k = e
            m[r, c] = nodata if k == 1 else other + (k - 2)
    return m


def materialise_pair(p):
    H, W = p["H"], p["W"]
    left = _tile(p["left"], H, W)
    for r, c, v in p.get("patch_left", []):
        left[r, c] = v
    if p["mode"] == "indep":
        right = _tile(p["right"], H, W)
    else:
        s = p["shift"]
        right = np.empty_like(left)
        fill = p["fill"]
        for c in range(W):
            src = c - s
            if 0 <= src < W:
                right[:, c] = left[:, src]
            else:
                right[:, c] = fill[c % 4]
        for r, c, v in p["pert"]:
            right[r, c] = v
    ml = _mask(p.get("mask_left"), H, W, p["valid"], p["nodata"])
    mr = _mask(p.get("mask_right"), H, W, p["valid"], p["nodata"])
    return left, right, ml, mr


def pair_kwargs(p):
    """kwargs for drive.run_pipeline / make_inputs"""
    left, right, ml, mr = materialise_pair(p)
    return dict(left=left, right=right, msk_left=ml, msk_right=mr, valid=p["valid"], nodata=p["nodata"])


# ----------------------------------------------------------------------------------------------------------------
# disparity intervals and grids
# ----------------------------------------------------------------------------------------------------------------
@st.composite
def interval(draw, lo=-6, hi=6, max_len=6, min_len=0):
    a = draw(st.integers(lo, hi - min_len))
    b = draw(st.integers(a + min_len, min(hi, a + max_len)))
    return [a, b]


# ----------------------------------------------------------------------------------------------------------------
# pipelines: payloads carry them as ordered lists [[step name, cfg], ...] (canonical JSON sorts dict keys)
# ----------------------------------------------------------------------------------------------------------------
def pipe_dict(lst) -> dict:
    import copy

    return {k: copy.deepcopy(v) for k, v in lst}


def pipe_list(d: dict) -> list:
    return [[k, v] for k, v in d.items()]
