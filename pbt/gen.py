"""Shared Hypothesis strategies.  All payloads are JSON-able; `materialise_*` turn them into numpy arrays."""
from __future__ import annotations

import math
from typing import Optional

import numpy as np
from hypothesis import strategies as st


# ----------------------------------------------------------------------------------------------------------------
# image pairs
# ----------------------------------------------------------------------------------------------------------------
@st.composite
def sparse_mask(draw, H, W, max_entries=6):
    """None (no mask) or a list of [r, c, kind] / ['rect', r0, c0, r1, c1, kind]; kind 1 = no-data, 2 = invalid"""
    if draw(st.integers(0, 2)) == 0:
        return None
    n = draw(st.integers(0, max_entries))
    ent = []
    for _ in range(n):
        if draw(st.integers(0, 5)) == 0:
            r0, c0 = draw(st.integers(0, H - 1)), draw(st.integers(0, W - 1))
            ent.append(["rect", r0, c0, min(H - 1, r0 + draw(st.integers(0, 2))), min(W - 1, c0 + draw(st.integers(0, 3))),
                        draw(st.sampled_from([1, 2, 2]))])
        else:
            ent.append([draw(st.integers(0, H - 1)), draw(st.integers(0, W - 1)), draw(st.sampled_from([1, 2, 2, 3]))])
    return ent


@st.composite
def image_pair(draw, min_rows=5, max_rows=12, min_cols=6, max_cols=14, max_val=20, masks=True, tile_max=None,
               conventions=True, texture=False):
    """Integer-valued radiometry.  mode 'indep': both images explicit; mode 'shift': right = left shifted by s
    columns (edges from `fill`) with a few perturbed pixels.  Large images: a small tile is repeated (tile_max)."""
    H = draw(st.integers(min_rows, max_rows))
    W = draw(st.integers(min_cols, max_cols))
    if tile_max and (H > tile_max or W > tile_max):
        th, tw = draw(st.integers(3, tile_max)), draw(st.integers(3, tile_max))
    else:
        th, tw = H, W
    hi = draw(st.sampled_from([max_val, max_val, 3, 255, 4095])) if max_val >= 20 else max_val
    px = st.integers(0, hi)
    if texture and draw(st.integers(0, 3)) != 0:
        # non-periodic texture for large images: a seeded pseudo-random field (pure function of the drawn seed), so that
        # matching is unambiguous and disparities follow the scene instead of the tile period
        left = {"texture_seed": draw(st.integers(0, 10 ** 6)), "hi": hi}
    else:
        left = draw(st.lists(st.lists(px, min_size=tw, max_size=tw), min_size=th, max_size=th))
    mode = draw(st.sampled_from(["indep", "shift", "shift", "planes"]))
    if isinstance(left, dict):
        mode = draw(st.sampled_from(["shift", "planes", "planes"]))
    p = {"H": H, "W": W, "left": left, "mode": mode}
    if mode == "indep":
        p["right"] = draw(st.lists(st.lists(px, min_size=tw, max_size=tw), min_size=th, max_size=th))
    else:
        p["shift"] = draw(st.integers(-3, 3))
        if mode == "planes":  # two fronto-parallel planes: columns right of `split` move by another shift
            p["shift2"] = draw(st.integers(-3, 3))
            p["split"] = draw(st.integers(1, W - 1))
        p["fill"] = draw(st.lists(px, min_size=4, max_size=4))
        npert = draw(st.integers(0, 8))
        p["pert"] = [[draw(st.integers(0, H - 1)), draw(st.integers(0, W - 1)), draw(px)] for _ in range(npert)]
    npl = draw(st.integers(0, 4)) if (th, tw) != (H, W) else 0
    p["patch_left"] = [[draw(st.integers(0, H - 1)), draw(st.integers(0, W - 1)), draw(px)] for _ in range(npl)]
    if masks:
        p["mask_left"] = draw(sparse_mask(H, W))
        p["mask_right"] = draw(sparse_mask(H, W))
    else:
        p["mask_left"] = p["mask_right"] = None
    if conventions and draw(st.integers(0, 3)) == 0:
        p["valid"], p["nodata"] = draw(st.sampled_from([(5, 7), (1, 0), (0, 255), (2, 1)]))
    else:
        p["valid"], p["nodata"] = 0, 1
    if conventions == "per-image" and draw(st.integers(0, 2)) == 0:
        # each dataset announces its own convention: the right mask may be coded differently from the left one
        p["valid_right"], p["nodata_right"] = draw(st.sampled_from([(5, 7), (1, 0), (0, 255), (2, 1), (0, 1)]))
    return p


def _tile(t, H, W):
    a = np.array(t, dtype=np.float32)
    th, tw = a.shape
    return np.tile(a, (math.ceil(H / th), math.ceil(W / tw)))[:H, :W].copy()


def _mask(entries, H, W, valid, nodata) -> Optional[np.ndarray]:
    if entries is None:
        return None
    other = max(valid, nodata) + 1
    m = np.full((H, W), valid, dtype=np.int16)
    for e in entries:
        if e[0] == "rect":
            _, r0, c0, r1, c1, k = e
            m[r0:r1 + 1, c0:c1 + 1] = nodata if k == 1 else other + (k - 2)
        else:
            r, c, k = e
            m[r, c] = nodata if k == 1 else other + (k - 2)
    return m


def materialise_pair(p):
    H, W = p["H"], p["W"]
    if isinstance(p["left"], dict):
        left = np.random.RandomState(p["left"]["texture_seed"]).randint(0, p["left"]["hi"] + 1, (H, W)).astype(np.float32)
    else:
        left = _tile(p["left"], H, W)
    for r, c, v in p.get("patch_left", []):
        left[r, c] = v
    if p["mode"] == "indep":
        right = _tile(p["right"], H, W)
    else:
        s = p["shift"]
        right = np.empty_like(left)
        fill = p["fill"]
        for c in range(W):
            src = c - (p["shift2"] if (p["mode"] == "planes" and c >= p["split"]) else s)
            if 0 <= src < W:
                right[:, c] = left[:, src]
            else:
                right[:, c] = fill[c % 4]
        for r, c, v in p["pert"]:
            right[r, c] = v
    if p.get("noise"):
        # a seeded fraction of the right pixels is replaced: noisy disparity maps (pure function of the drawn seed)
        rs = np.random.RandomState(p["noise"]["seed"])
        hit = rs.rand(H, W) < p["noise"]["frac"]
        right = np.where(hit, rs.randint(0, int(left.max()) + 1, (H, W)), right).astype(np.float32)
    ml = _mask(p.get("mask_left"), H, W, p["valid"], p["nodata"])
    mr = _mask(p.get("mask_right"), H, W, p.get("valid_right", p["valid"]), p.get("nodata_right", p["nodata"]))
    return left, right, ml, mr


def conv_kwargs(p, swap=False):
    """mask-convention kwargs of drive.make_inputs / run_pipeline for a pair payload (swap: images exchanged)"""
    vl, nl = p["valid"], p["nodata"]
    vr, nr = p.get("valid_right", vl), p.get("nodata_right", nl)
    if swap:
        vl, nl, vr, nr = vr, nr, vl, nl
    return dict(valid=vl, nodata=nl, valid_right=vr, nodata_right=nr)


def pair_kwargs(p):
    """kwargs for drive.run_pipeline / make_inputs"""
    left, right, ml, mr = materialise_pair(p)
    return dict(left=left, right=right, msk_left=ml, msk_right=mr, **conv_kwargs(p))


# ----------------------------------------------------------------------------------------------------------------
# disparity intervals and grids
# ----------------------------------------------------------------------------------------------------------------
@st.composite
def interval(draw, lo=-6, hi=6, max_len=6, min_len=0):
    a = draw(st.integers(lo, hi - min_len))
    b = draw(st.integers(a + min_len, min(hi, a + max_len)))
    return [a, b]


# ----------------------------------------------------------------------------------------------------------------
# pipelines: payloads carry them as ordered lists [[step name, cfg], ...] (canonical JSON sorts dict keys)
# ----------------------------------------------------------------------------------------------------------------
def pipe_dict(lst) -> dict:
    import copy

    return {k: copy.deepcopy(v) for k, v in lst}


def pipe_list(d: dict) -> list:
    return [[k, v] for k, v in d.items()]


@st.composite
def matching_cost_cfg(draw, measures=("sad", "ssd", "census", "zncc"), windows=(1, 3, 3, 5), subpix=(1, 1, 2, 4)):
    m = draw(st.sampled_from(list(measures)))
    w = draw(st.sampled_from([3, 5])) if m == "census" else draw(st.sampled_from(list(windows)))
    cfg = {"matching_cost_method": m, "window_size": w}
    s = draw(st.sampled_from(list(subpix)))
    if s != 1 or draw(st.booleans()):
        cfg["subpix"] = s
    return cfg


@st.composite
def filter_cfg(draw, kinds=("median", "bilateral")):
    k = draw(st.sampled_from(list(kinds)))
    if k == "median":
        cfg = {"filter_method": "median"}
        if draw(st.booleans()):
            cfg["filter_size"] = draw(st.sampled_from([1, 3, 3, 5]))
        return cfg
    cfg = {"filter_method": "bilateral", "sigma_space": draw(st.sampled_from([0.4, 0.7, 1.0, 1.4])),
           "sigma_color": draw(st.sampled_from([0.5, 2.0, 10.0]))}
    return cfg


@st.composite
def legal_pipeline(draw, validation="maybe", fill=True, confidence=True, cbca=True, refinement=True, filters=True,
                   max_post=4, measures=("sad", "ssd", "census", "zncc"), windows=(1, 3, 3, 5), subpix=(1, 1, 2, 4),
                   invalid=(-9999, "NaN"), filter_kinds=("median", "bilateral"), repeat_validation=False):
    """A legal single-scale pipeline as an ordered list [[name, cfg], ...]:
    matching_cost, then cost-volume steps (confidence*, cbca), disparity, then disp_map steps in any order with
    '.suffix' repetitions.  validation: True | False | 'maybe' | 'last' (exactly one, as last step)."""
    steps = [["matching_cost", draw(matching_cost_cfg(measures, windows, subpix))]]
    ncv = draw(st.integers(0, 2))
    used_conf = 0
    has_agg = False
    for _ in range(ncv):
        kind = draw(st.sampled_from((["conf"] if confidence else []) + (["cbca"] if cbca else []) + ["none"]))
        if kind == "conf":
            m = draw(st.sampled_from(["ambiguity", "risk", "interval_bounds", "std_intensity"]))
            name = "cost_volume_confidence" + (f".c{used_conf}" if used_conf or draw(st.booleans()) else "")
            used_conf += 1
            steps.append([name, {"confidence_method": m}])
        elif kind == "cbca" and not has_agg:
            has_agg = True
            cfg = {"aggregation_method": "cbca"}
            if draw(st.booleans()):
                cfg["cbca_distance"] = draw(st.sampled_from([1, 2, 3, 5]))
                cfg["cbca_intensity"] = draw(st.sampled_from([1.0, 5.0, 30.0]))
            steps.append(["aggregation", cfg])
    dcfg = {"disparity_method": "wta"}
    inv = draw(st.sampled_from(list(invalid)))
    if inv != -9999 or draw(st.booleans()):
        dcfg["invalid_disparity"] = inv
    steps.append(["disparity", dcfg])
    want_val = {"maybe": draw(st.booleans()), True: True, False: False, "last": False}[validation]
    post = []
    n = draw(st.integers(0, max_post))
    counts = {"filter": 0, "refinement": 0, "validation": 0}
    for _ in range(n):
        opts = (["filter"] if filters else []) + (["refinement"] if refinement else [])
        if want_val and (counts["validation"] == 0 or repeat_validation):
            opts += ["validation", "validation"]
        if not opts:
            break
        k = draw(st.sampled_from(opts))
        name = k if counts[k] == 0 else f"{k}.{counts[k]}"
        counts[k] += 1
        if k == "filter":
            post.append([name, draw(filter_cfg(filter_kinds))])
        elif k == "refinement":
            post.append([name, {"refinement_method": draw(st.sampled_from(["vfit", "quadratic"]))}])
        else:
            cfg = {"validation_method": "cross_checking_accurate"}
            if draw(st.booleans()):
                cfg["cross_checking_threshold"] = draw(st.sampled_from([0, 0.5, 1.0, 2]))
            if fill and draw(st.integers(0, 2)) == 0:
                cfg["interpolated_disparity"] = draw(st.sampled_from(["mc-cnn", "sgm"]))
            post.append([name, cfg])
    if want_val and counts["validation"] == 0:
        cfg = {"validation_method": "cross_checking_accurate"}
        if fill and draw(st.integers(0, 2)) == 0:
            cfg["interpolated_disparity"] = draw(st.sampled_from(["mc-cnn", "sgm"]))
        post.insert(draw(st.integers(0, len(post))), ["validation", cfg])
    if validation == "last":
        post.append(["validation", {"validation_method": "cross_checking_accurate"}])
    return steps + post


def pipeline_radius(steps) -> int:
    """conservative dependency radius (rows) of a local pipeline: sum of all window / arm / filter radii"""
    rad = 0
    for name, cfg in steps:
        kind = name.split(".")[0]
        if kind == "matching_cost":
            rad += cfg.get("window_size", 5) // 2
        elif kind == "aggregation":
            rad += cfg.get("cbca_distance", 5) + 1  # arms (< distance) + 3x3 median of the images
        elif kind == "filter":
            if cfg["filter_method"] == "median":
                rad += cfg.get("filter_size", 3) // 2
            elif cfg["filter_method"] == "bilateral":
                rad += int(3 * cfg.get("sigma_space", 6.0) + 1) // 2 + 1
        elif kind == "cost_volume_confidence":
            rad += 0
    return rad


def clamp_interval(disp, W, steps):
    """keep at least one full matching window of overlap between the images: |d| <= W - window (C02's known finding
    lives beyond that bound and is judged there, in its own class)"""
    lim = max(0, W - steps[0][1].get("window_size", 5))
    a = max(-lim, min(lim, disp[0]))
    b = max(a, min(lim, disp[1]))
    return [a, b]
