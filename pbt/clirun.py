"""python -m pbt.clirun <config.json> <output_dir> [-v] : Pandora's console entry point (`pandora.Pandora:main`, the argparse
front end of the `pandora` command) run against the tree under test, in a process of its own."""
import sys

from . import env


def main():
    env.bootstrap()
    from pandora.Pandora import main as cli

    sys.argv = ["pandora"] + sys.argv[1:]
    cli()


if __name__ == "__main__":
    main()
