"""Harness-side stub plugins, registered through the documented `register_subclass` mechanism, so that the
`optimization` and `semantic_segmentation` transitions can be exercised although no plugin package is installed.
Both are identity transforms that only record their calls (argument roles by object identity)."""
from __future__ import annotations

from json_checker import And, Checker, OptionalKey

CALLS = []  # (plugin kind, method name, role) appended at run time; cleared by the checks

ASYM_MARGINS = (1, 0, 2, 3)  # left, up, right, down of the stub refinement plugin "verif_asym"
_DONE = False


def install() -> None:
    global _DONE
    if _DONE:
        return
    _DONE = True
    from pandora import optimization, semantic_segmentation

    @optimization.AbstractOptimization.register_subclass("verif_identity")
    class IdentityOptimization(optimization.AbstractOptimization):  # pylint: disable=unused-variable
        def __init__(self, _img, **cfg):
            self.cfg = self.check_conf(**cfg)

        def check_conf(self, **cfg):
            if "penalty" not in cfg:
                cfg["penalty"] = 1
            Checker({"optimization_method": And(str, lambda x: x == "verif_identity"),
                     "penalty": And(int, lambda x: x >= 0),
                     OptionalKey("geometric_prior"): dict}).validate(cfg)
            return cfg

        def desc(self):
            print("identity optimisation (verification stub)")

        def optimize_cv(self, cv, img_left, img_right):
            CALLS.append(("optimization", id(cv), id(img_left), id(img_right)))
            return cv

    @semantic_segmentation.AbstractSemanticSegmentation.register_subclass("verif_identity")
    class IdentitySegmentation(semantic_segmentation.AbstractSemanticSegmentation):  # pylint: disable=unused-variable
        def __init__(self, _img, **cfg):
            self.cfg = self.check_conf(**cfg)

        def check_conf(self, **cfg):
            Checker({"segmentation_method": And(str, lambda x: x == "verif_identity"),
                     "RGB_bands": dict, OptionalKey("vegetation_band"): dict}).validate(cfg)
            return cfg

        def desc(self):
            print("identity segmentation (verification stub)")

        def compute_semantic_segmentation(self, cv, img_left, img_right):
            CALLS.append(("semantic_segmentation", id(cv), id(img_left), id(img_right)))
            return img_left

    from pandora import refinement
    from pandora.margins.descriptors import FixedMargins

    @refinement.AbstractRefinement.register_subclass("verif_asym")
    class AsymmetricRefinement(refinement.AbstractRefinement):  # pylint: disable=unused-variable
        """does nothing; announces margins that differ on the four sides (plugins may: FixedMargins(left, up, right, down))"""

        margins = FixedMargins(*ASYM_MARGINS)

        def __init__(self, **cfg):
            self.cfg = self.check_conf(**cfg)
            self._refinement_method_name = str(self.cfg["refinement_method"])

        @staticmethod
        def check_conf(**cfg):
            Checker({"refinement_method": And(str, lambda x: x == "verif_asym")}).validate(cfg)
            return cfg

        def desc(self):
            print("asymmetric-margin refinement (verification stub)")

        @staticmethod
        def refinement_method(cost, disp, measure):
            return 0.0, cost[1], 0
