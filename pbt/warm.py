"""Compile (into the tree-keyed numba cache) every kernel the checks use, by running small pipelines once."""
from __future__ import annotations

import sys


def main() -> int:
    from . import env

    env.bootstrap()
    import numpy as np

    from . import drive

    rng = np.random.RandomState(0)
    left = rng.randint(0, 20, (14, 16)).astype(np.float32)
    right = np.roll(left, 1, axis=1)
    msk = np.zeros((14, 16), dtype=np.int16)
    msk[3, 4] = 1
    msk[8, 9] = 2
    pipes = [
        {
            "matching_cost": {"matching_cost_method": "zncc", "window_size": 3, "subpix": 2},
            "cost_volume_confidence.a": {"confidence_method": "ambiguity"},
            "cost_volume_confidence.b": {"confidence_method": "risk"},
            "cost_volume_confidence.c": {"confidence_method": "interval_bounds", "regularization": True, "ambiguity_indicator": "a"},
            "cost_volume_confidence.d": {"confidence_method": "std_intensity"},
            "aggregation": {"aggregation_method": "cbca"},
            "disparity": {"disparity_method": "wta"},
            "refinement": {"refinement_method": "vfit"},
            "filter": {"filter_method": "median"},
            "filter.i": {"filter_method": "median_for_intervals", "regularization": True, "interval_indicator": "c",
                         "ambiguity_indicator": "a"},
            "validation": {"validation_method": "cross_checking_accurate", "interpolated_disparity": "mc-cnn"},
            "filter.b": {"filter_method": "bilateral"},
        },
        {
            "matching_cost": {"matching_cost_method": "census", "window_size": 3},
            "disparity": {"disparity_method": "wta", "invalid_disparity": "NaN"},
            "refinement": {"refinement_method": "quadratic"},
            "validation": {"validation_method": "cross_checking_accurate", "interpolated_disparity": "sgm"},
        },
        {
            "matching_cost": {"matching_cost_method": "sad", "window_size": 1, "subpix": 4},
            "disparity": {"disparity_method": "wta"},
        },
        {
            "matching_cost": {"matching_cost_method": "ssd", "window_size": 5},
            "disparity": {"disparity_method": "wta"},
        },
    ]
    for pipe in pipes:
        for m in (None, msk):
            drive.run_pipeline(left, right, pipe, (-2, 2), msk_left=m, msk_right=m)
    return 0


if __name__ == "__main__":
    sys.exit(main())
