"""GeoTIFF helpers (rasterio) and scratch directories under /verif/.work (removed by the caller)."""
from __future__ import annotations

import contextlib
import os
import shutil
import tempfile
import warnings

import numpy as np

from .core import VERIF_DIR


@contextlib.contextmanager
def scratch_dir(prefix="case"):
    root = os.path.join(VERIF_DIR, ".work", "files")
    os.makedirs(root, exist_ok=True)
    d = tempfile.mkdtemp(prefix=prefix + "-", dir=root)
    try:
        yield d
    finally:
        shutil.rmtree(d, ignore_errors=True)


LOCAL_CRS = "+proj=tmerc +lat_0=43.5 +lon_0=1.4 +k=0.9999 +x_0=1000 +y_0=2000 +ellps=GRS80 +units=m +no_defs"


def write_tiff(path, data, dtype="float32", nodata=None, descriptions=None, georef=False, crs="EPSG:32631"):
    """data: (H, W) or (bands, H, W)"""
    import rasterio
    from rasterio.transform import Affine

    arr = np.asarray(data)
    if arr.ndim == 2:
        arr = arr[None]
    profile = dict(driver="GTiff", height=arr.shape[1], width=arr.shape[2], count=arr.shape[0], dtype=dtype)
    if nodata is not None:
        profile["nodata"] = nodata
    if georef:
        # georef = True, or an (x, y) offset of the origin (a second image of the same scene has its own footprint)
        dx, dy = georef if isinstance(georef, (tuple, list)) else (0.0, 0.0)
        profile["crs"] = crs  # an EPSG code, or a projection without any authority code (LOCAL_CRS)
        profile["transform"] = Affine(0.5, 0.0, 300000.0 + dx, 0.0, -0.5, 4800000.0 + dy)
    with warnings.catch_warnings():
        warnings.simplefilter("ignore")
        with rasterio.open(path, "w", **profile) as dst:
            dst.write(arr.astype(dtype))
            if descriptions:
                dst.descriptions = tuple(descriptions)
    return path


def read_tiff(path):
    import rasterio

    with warnings.catch_warnings():
        warnings.simplefilter("ignore")
        with rasterio.open(path) as src:
            return src.read(), dict(src.profile), tuple(src.descriptions)
