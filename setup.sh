#!/bin/sh
# Offline setup: make sure Hypothesis is importable beside the repository's packages, compile the harness, and
# pre-build the numba cache for /repo's current tree (so that each check starts in seconds).
cd "$(dirname "$0")" || exit 2
export PIP_NO_INDEX=1
if ! /venv/bin/python -c "import hypothesis" 2>/dev/null; then
  mkdir -p .deps
  /venv/bin/pip install --no-index --find-links /opt/veriftools/wheels --target .deps hypothesis >/dev/null 2>&1 || {
    echo "cannot install hypothesis from the offline wheelhouse" >&2; exit 2; }
fi
export PYTHONHASHSEED=0 PYTHONDONTWRITEBYTECODE=1
if [ -d "$PWD/.deps" ]; then export PYTHONPATH="$PWD:$PWD/.deps"; else export PYTHONPATH="$PWD"; fi
/venv/bin/python - <<'PY' || exit 2
import hypothesis, sys
sys.path.insert(0, ".")
from pbt import env, run
e = env.base_env()
run.ensure_warm(e)
# second cache: kernels compiled with numba parallelisation switched off (used by C18's environment differential)
e2 = dict(e, PANDORA_NUMBA_PARALLEL="False", NUMBA_CACHE_DIR=env.cache_dir("False"))
run.ensure_warm(e2)
print("setup ok: hypothesis", hypothesis.__version__, "tree", env.tree_hash())
PY
