src=open('/verif/design_probes/probe_matching_cost_reference.py').read()
exec(src.split("def run_mc(")[0])
import pandora as P, math
import pandora.constants as cst
def rmp(cfg):
    if "multiscale" in cfg["pipeline"]:
        c=cfg["pipeline"]["multiscale"]; return c["num_scales"], c["scale_factor"]
    return 1,1
P.read_multiscale_params=rmp
import pandora.matching_cost.matching_cost as mcm
from pandora.multiscale import fixed_zoom_pyramid as fzp
rec=[]
o1=mcm.AbstractMatchingCost.allocate_cost_volume
def spy(self,image,grids,cfg=None):
    rec.append(("mc",image.sizes["row"],image.sizes["col"],np.array(grids[0],dtype=float).copy(),np.array(grids[1],dtype=float).copy())); return o1(self,image,grids,cfg)
mcm.AbstractMatchingCost.allocate_cost_volume=spy
o2=fzp.FixedZoomPyramid.disparity_range
def spy2(self,disp,dmin,dmax):
    rec.append(("ms",disp["disparity_map"].data.copy(),disp["validity_mask"].data.copy(),float(np.nanmin(dmin)),float(np.nanmax(dmax)),disp.attrs["window_size"])); return o2(self,disp,dmin,dmax)
fzp.FixedZoomPyramid.disparity_range=spy2
rng=np.random.default_rng(4); bad=0; tot=0
for it in range(40):
    H,W=int(rng.integers(24,50)),int(rng.integers(24,60)); sf=int(rng.choice([2,3])); ns=int(rng.choice([2,3])); marge=int(rng.integers(0,3)); w=int(rng.choice([1,3,5]))
    if sf==3 and ns==3 and min(H,W)<45: ns=2
    L=rng.integers(0,30,(H,W)); R=np.roll(L,int(rng.integers(-3,4)),axis=1)
    a=int(rng.integers(-8,1)); b=int(rng.integers(0,9))
    l=mk(L,a,b); r=mk(R,a,b,disp=False)
    pipe={"matching_cost":{"matching_cost_method":"sad","window_size":w},"disparity":{"disparity_method":"wta"},
          "multiscale":{"multiscale_method":"fixed_zoom_pyramid","num_scales":ns,"scale_factor":sf,"marge":marge}}
    rec.clear(); m=PandoraMachine(); m.check_conf({"pipeline":copy.deepcopy(pipe)},meta(l),meta(r))
    lo,_=pandora.run(m,l,r,{"input":{},"pipeline":m.pipeline_cfg["pipeline"]}); tot+=1
    mcs=[x for x in rec if x[0]=="mc"]; mss=[x for x in rec if x[0]=="ms"]
    if len(mcs)!=ns or lo.disparity_map.shape!=(H,W): bad+=1; print("COUNT",it,len(mcs),ns)
    sizes=[(x[1],x[2]) for x in mcs]
    # sizes shrink
    for k in range(len(sizes)-1):
        big=sizes[k+1]; small=sizes[k]
        if not all(math.floor(bg/sf)<=sm<=math.ceil(bg/sf) for bg,sm in zip(big,small)): bad+=1; print("SIZE",it,sizes)
    # coarsest interval
    g0min,g0max=mcs[0][3],mcs[0][4]; f=sf**(ns-1)
    lo_ok= math.floor(a/f)<=np.min(g0min)<=math.ceil(a/f) or np.allclose(g0min,a/f)
    if not (np.allclose(g0min,a/f) and np.allclose(g0max,b/f)): bad+=1; print("COARSE",it,np.unique(g0min),a/f)
    # per level rule
    for k,ms in enumerate(mss):
        dmap,vm,umin,umax,ws=ms[1],ms[2],ms[3],ms[4],ms[5]; off=(ws-1)//2
        fmin,fmax=mcs[k+1][3],mcs[k+1][4]; fh,fw=mcs[k+1][1],mcs[k+1][2]
        ch,cw=dmap.shape
        valid=(vm.astype(int)&cst.PANDORA_MSK_PIXEL_INVALID)==0
        def refint(i,j):
            if not valid[i,j] or i<off or i>=ch-off or j<off or j>=cw-off: return (sf*int(umin),sf*int(umax))
            win=dmap[i-off:i+off+1,j-off:j+off+1][valid[i-off:i+off+1,j-off:j+off+1]]
            return (sf*(win.min()-marge),sf*(win.max()+marge))
        nbad=0
        for i in range(fh):
            for j in range(fw):
                pi,pj=i//sf,j//sf; ok=False
                for di in (-1,0,1):
                    for dj in (-1,0,1):
                        ii,jj=pi+di,pj+dj
                        if 0<=ii<ch and 0<=jj<cw and refint(ii,jj)==(fmin[i,j],fmax[i,j]): ok=True
                nbad+=not ok
        if nbad: bad+=1; print("RULE",it,"level",k,"bad px",nbad,"of",fh*fw,"sf",sf,"ns",ns,"w",w,"marge",marge,(ch,cw),(fh,fw),fmin.shape)
print("tot",tot,"bad",bad)
