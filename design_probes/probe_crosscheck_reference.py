import numpy as np, xarray as xr, warnings, math; warnings.filterwarnings("ignore")
from pandora import validation
import pandora.constants as cst
INV=cst.PANDORA_MSK_PIXEL_INVALID
def dsmap(d, vm, dmin,dmax, off):
    ds=xr.Dataset({"disparity_map":(["row","col"],np.array(d,dtype=np.float32)),"validity_mask":(["row","col"],np.array(vm,dtype=np.uint16))},
       coords={"row":np.arange(d.shape[0]),"col":np.arange(d.shape[1])})
    ds["disparity_interval"]=xr.DataArray([dmin,dmax],coords=[("disparity",["min","max"])])
    ds.attrs={"offset_row_col":off,"window_size":2*off+1}
    return ds
def rounds(x):
    if np.isnan(x) or np.isinf(x): return [None]
    f=math.floor(x)
    if x-f==0.5: return [f,f+1]
    return [int(np.rint(x))]
rng=np.random.default_rng(9); tot=0;bad=0;kn=0;judged=0
for it in range(600):
    H,W=int(rng.integers(1,5)),int(rng.integers(2,12)); off=int(rng.choice([0,0,1])); 
    if off and (H<3 or W<3): off=0
    dmin=int(rng.integers(-3,2)); dmax=dmin+int(rng.integers(0,5))
    q=float(rng.choice([1,0.5,0.25]))
    def mkmap():
        d=np.round(rng.uniform(dmin-0.5,dmax+0.5,(H,W))/q)*q
        vm=np.zeros((H,W),int)
        inv=rng.random((H,W))<0.2
        vm[inv]=rng.choice([1,2,64,128,3,66],size=inv.sum())
        vm[~inv]=rng.choice([0,0,4,8,12],size=(~inv).sum())
        invval=float(rng.choice([-9999,np.nan]))
        d[inv]=invval
        if off:
            b=np.ones((H,W),bool); b[off:-off,off:-off]=False; vm[b]=1; d[b]=invval
        return d.astype(np.float32),vm
    dl,vl=mkmap(); dr,vr=mkmap()
    thr=float(rng.choice([0,0.5,1,1.5,2]))
    l=dsmap(dl.copy(),vl.copy(),dmin,dmax,off); r=dsmap(dr.copy(),vr.copy(),-dmax,-dmin,off)
    v=validation.AbstractValidation(validation_method="cross_checking_accurate",cross_checking_threshold=thr)
    o=v.disparity_checking(l,r)
    vm=o.validity_mask.data.astype(int); tot+=1
    if not np.array_equal(o.disparity_map.data,dl,equal_nan=True) or not np.array_equal(r.disparity_map.data,dr,equal_nan=True): bad+=1; print("DISP CHANGED",it)
    for rr in range(H):
        for c in range(W):
            before=int(vl[rr,c]); after=int(vm[rr,c])
            if off and (rr<off or rr>=H-off or c<off or c>=W-off):
                if after!=1: bad+=1; print("BORDER",it)
                continue
            if before&INV:
                if after!=before: bad+=1; print("INVALID TOUCHED",it,before,after)
                continue
            judged+=1
            new=after^before
            if new & ~(256|512) or (after&before)!=before: bad+=1; print("OTHER BITS",it,before,after); continue
            allowed=set()
            for qc in rounds(c+float(dl[rr,c])):  # admissible correspondents (half: either)
                if qc is None or not(0<=qc<W): allowed|={256,512}; outside=True; continue
                x=float(dr[rr,qc]); s=abs(float(dl[rr,c])+(np.inf if np.isnan(x) else x))
                if s<=thr: allowed.add(0)
                else:
                    mm=set()
                    for d in range(dmin,dmax+1):
                        if 0<=c+d<W:
                            for rv in rounds(float(dr[rr,c+d])):
                                if rv is not None and rv==-d: mm.add(True)
                            # ambiguity: if half, could also be not equal
                            if len(rounds(float(dr[rr,c+d])))==2 and (-d in rounds(float(dr[rr,c+d]))): mm.add(False)
                    if True in mm: allowed.add(512)
                    if (True not in mm) or (False in mm): allowed.add(256)
            if new not in allowed:
                qs=rounds(c+float(dl[rr,c]))
                if new==0 and not(0<=int(np.rint(c+float(dl[rr,c])))<W): kn+=1
                else:
                    bad+=1
                    if bad<15: print("MIS",it,(rr,c),"dl",dl[rr,c],"thr",thr,"new",new,"allowed",allowed,"row dr",dr[rr],"int",dmin,dmax)
print("cases",tot,"judged px",judged,"bad",bad,"known(outside unflagged)",kn)
