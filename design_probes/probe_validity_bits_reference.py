src=open('/verif/design_probes/probe_matching_cost_reference.py').read()
exec(src.split("rng=np.random.default_rng(7)")[0])
import math
def refbits(L,ML,MR,gmin,gmax,w,conv,cvdata):
    H,W=L.shape; h=w//2
    nodL=(ML==conv[1]) if ML is not None else np.zeros((H,W),bool); invL=((ML!=conv[0])&(ML!=conv[1])) if ML is not None else np.zeros((H,W),bool)
    invR=((MR!=conv[0])&(MR!=conv[1])) if MR is not None else np.zeros((H,W),bool)
    res={}
    for r in range(H):
      for c in range(W):
        border = r<h or r>=H-h or c<h or c>=W-h
        if border: res[(r,c)]=("exact",1); continue
        b0 = nodL[r-h:r+h+1,c-h:c+h+1].any()
        b6 = bool(invL[r,c])
        b1 = bool(np.isnan(cvdata[r,c]).all())
        ds=range(gmin,gmax+1)
        fit=[d for d in ds if h<=c+d<=W-1-h]; inimg=[d for d in ds if 0<=c+d<=W-1]; out=[d for d in ds if not(0<=c+d<=W-1)]
        nofit=[d for d in ds if not(h<=c+d<=W-1-h)]
        # bit2: must0 if all fit ; must1 if some truly outside and some fit ; else unspecified
        b2 = 0 if not nofit else (1 if (out and fit) else None)
        # bit7: must0 if exists fit candidate not invalid-masked; must1 if fit nonempty and all in-image candidates invalid-masked; else None
        if any(not invR[r,c+d] for d in fit): b7=0
        elif fit and all(invR[r,c+d] for d in inimg): b7=1
        else: b7=None
        res[(r,c)]=("bits",b0,b1,b2,b6,b7)
    return res
rng=np.random.default_rng(21); tot=0; bad=0; unspec=0; judged=0
for it in range(300):
    meth=str(rng.choice(["sad","census","zncc"])); w=int(rng.choice([3,5])) if meth=="census" else int(rng.choice([1,3,5])); sub=int(rng.choice([1,2]))
    H=w+int(rng.integers(0,4)); W=w+int(rng.integers(2,9))
    L=rng.integers(0,9,(H,W)).astype(np.float32); R=rng.integers(0,9,(H,W)).astype(np.float32)
    conv=(0,1)
    def mkmask():
        if rng.random()<0.3: return None
        return rng.choice([0,0,0,0,1,2,3],size=(H,W))
    ML=mkmask(); MR=mkmask()
    a=int(rng.integers(-4,4)); b=a+int(rng.integers(0,4))
    if max(abs(a),abs(b))+w>W: continue
    if rng.random()<0.3:
        dmin=rng.integers(a,b+1,(H,W)); dmax=np.minimum(b,dmin+rng.integers(0,3,(H,W))); dmin[0,0]=a; dmax[0,0]=b
    else: dmin,dmax=a,b
    l=mk(L,dmin,dmax,ML,conv=conv); r=mk(R,dmin,dmax,MR,disp=False,conv=conv)
    cv=run_mc(l,r,{"matching_cost_method":meth,"window_size":w,"subpix":sub})
    vm=cv["validity_mask"].data; tot+=1
    ref=refbits(L,ML,MR,int(np.min(dmin)),int(np.max(dmax)),w,conv,cv["cost_volume"].data)
    for (r_,c_),e in ref.items():
        v=int(vm[r_,c_])
        if e[0]=="exact":
            if v!=1: bad+=1; print("BORDER",it,(r_,c_),v)
            continue
        _,b0,b1,b2,b6,b7=e
        got=[(v>>k)&1 for k in (0,1,2,6,7)]
        exp=[int(b0),int(b1),b2,int(b6),b7]
        for name,g,x in zip("01267",got,exp):
            if x is None: unspec+=1; continue
            judged+=1
            if g!=x:
                bad+=1
                if bad<25: print("MIS",it,meth,"w",w,"sub",sub,(H,W),"int",a,b,"grid" if np.ndim(dmin) else "sc","px",(r_,c_),"bit",name,"got",g,"exp",x,"mask",v)
        if v & ~0b11000111: bad+=1; print("EXTRA",it,(r_,c_),v)
print("cases",tot,"judged",judged,"unspec",unspec,"bad",bad)
