import numpy as np, warnings; warnings.filterwarnings("ignore")
import xarray as xr
from pandora import cost_volume_confidence as cvc
def cvds(cv, tm="min"):
    ds=xr.Dataset({"cost_volume":(["row","col","disp"],cv.astype(np.float32))},coords={"row":np.arange(cv.shape[0]),"col":np.arange(cv.shape[1]),"disp":np.arange(cv.shape[2])-1})
    ds.attrs={"type_measure":tm,"subpixel":1,"window_size":1,"offset_row_col":0,"band_correl":None}
    return ds
def etas_of(emax,estep):
    return np.arange(0.0,np.float32(emax),np.float32(estep))  # float64 arange of float32-rounded args
def ref(cv,emax,estep,eps):
    mn=np.nanmin(cv); mx=np.nanmax(cv); et=etas_of(emax,estep); H,W,D=cv.shape
    amb_lo=np.zeros((H,W)); amb_hi=np.zeros((H,W)); rmax_lo=np.zeros((H,W)); rmax_hi=np.zeros((H,W)); rmin_lo=np.zeros((H,W)); rmin_hi=np.zeros((H,W))
    for r in range(H):
        for c in range(W):
            cur=cv[r,c].astype(np.float64)
            if np.isnan(cur).all():
                amb_lo[r,c]=amb_hi[r,c]=len(et)*D; rmax_lo[r,c]=rmax_hi[r,c]=rmin_lo[r,c]=rmin_hi[r,c]=np.nan; continue
            n=(cur-mn)/(mx-mn); nmin=np.nanmin(n); nn=np.where(np.isnan(n),-np.inf,n)
            rl=[];rh=[];ml=[];mh=[]
            for e in et:
                lo=(nn<=nmin+e-eps)|(nn<=nmin); hi=nn<=nmin+e+eps
                amb_lo[r,c]+=lo.sum(); amb_hi[r,c]+=hi.sum()
                def spread(m): 
                    i=np.where(m)[0]; return i.max()-i.min()
                rl.append(spread(lo)); rh.append(spread(hi))
                ml.append(1+spread(lo)-hi.sum()); mh.append(1+spread(hi)-lo.sum())
            rmax_lo[r,c]=np.mean(rl); rmax_hi[r,c]=np.mean(rh); rmin_lo[r,c]=np.mean(ml); rmin_hi[r,c]=np.mean(mh)
    return amb_lo,amb_hi,rmax_lo,rmax_hi,rmin_lo,rmin_hi
rng=np.random.default_rng(5); bad=0; tight=0; tot=0
for it in range(150):
    H,W,D=int(rng.integers(1,5)),int(rng.integers(1,6)),int(rng.integers(2,7))
    cv=rng.integers(0,int(rng.choice([5,50,1000])),(H,W,D)).astype(np.float64)
    cv[rng.random(cv.shape)<0.15]=np.nan
    if np.isnan(cv).all() or np.nanmin(cv)==np.nanmax(cv): continue
    emax=float(rng.choice([0.7,0.3,0.99,0.05])); estep=float(rng.choice([0.01,0.1,0.25,0.003]))
    a=cvc.AbstractCostVolumeConfidence(confidence_method="ambiguity",eta_max=emax,eta_step=estep,normalization=False)
    _,o=a.confidence_prediction(None,None,None,cvds(cv)); amb=1-o.confidence_measure.data[:,:,0].astype(np.float64)
    rk=cvc.AbstractCostVolumeConfidence(confidence_method="risk",eta_max=emax,eta_step=estep)
    _,o2=rk.confidence_prediction(None,None,None,cvds(cv)); names=list(o2.indicator.data); rmax=o2.confidence_measure.data[:,:,0]; rmin=o2.confidence_measure.data[:,:,1]
    lo,hi,rml,rmh,rnl,rnh=ref(cv.astype(np.float32),emax,estep,1e-6)
    tot+=1
    ok=(amb>=lo-1e-3)&(amb<=hi+1e-3)
    okr=(np.isnan(rmax)&np.isnan(rml))|((rmax>=rml-1e-4)&(rmax<=rmh+1e-4))
    okn=(np.isnan(rmin)&np.isnan(rnl))|((rmin>=rnl-1e-4)&(rmin<=rnh+1e-4))
    okrel=np.isnan(rmax)|((rmin>=-1e-6)&(rmin<=rmax+1e-6))
    tight+=int((lo==hi).all())
    if not(ok.all() and okr.all() and okn.all() and okrel.all()):
        bad+=1; print("MIS",it,(H,W,D),emax,estep,names,"amb",ok.all(),"rmax",okr.all(),"rmin",okn.all(),"rel",okrel.all()); 
        if not ok.all():
            i=np.argwhere(~ok)[0]; print("   amb",amb[tuple(i)],lo[tuple(i)],hi[tuple(i)],cv[tuple(i)])
        if not okrel.all():
            i=np.argwhere(~okrel)[0]; print("   rel",rmin[tuple(i)],rmax[tuple(i)],cv[tuple(i)])
print("tot",tot,"bad",bad,"tight",tight)
