"""DESIGN PROBE (throw-away, not part of the verification machinery).
Naive cross-based aggregation reference vs. the real cbca step; run with /venv/bin/python.
Result on the pinned tree: 366/394 random cases agree (rel 1e-4); all 28 disagreements have cbca_distance == 1
and a mask (DESIGN.md section 6, #13).
"""
import numpy as np, xarray as xr, copy, warnings, logging, math
warnings.filterwarnings("ignore")
import pandora
from pandora.state_machine import PandoraMachine
logging.getLogger("transitions.core").setLevel(logging.ERROR)
def mk(img, dmin, dmax, msk=None, disp=True, bands=None, conv=(0,1)):
    if img.ndim==2:
        ds = xr.Dataset({"im": (["row","col"], img.astype(np.float32))}, coords={"row": np.arange(img.shape[0]), "col": np.arange(img.shape[1])})
    else:
        ds = xr.Dataset({"im": (["band_im","row","col"], img.astype(np.float32))}, coords={"band_im":bands,"row": np.arange(img.shape[1]), "col": np.arange(img.shape[2])})
    ds.attrs = {"no_data_img": -9999, "valid_pixels": conv[0], "no_data_mask": conv[1], "crs": None, "transform": None}
    H,W=img.shape[-2:]
    if msk is not None: ds["msk"] = (["row","col"], msk.astype(np.int16))
    if disp:
        ds.coords["band_disp"]=["min","max"]
        ds["disparity"] = xr.DataArray(np.array([np.broadcast_to(dmin,(H,W)),np.broadcast_to(dmax,(H,W))]).astype(np.float32), dims=["band_disp","row","col"])
        ds.attrs["disparity_source"]=[int(np.min(dmin)),int(np.max(dmax))] if np.ndim(dmin)==0 else "grid"
    else: ds.attrs["disparity_source"]=None
    return ds
def meta(ds):
    b=list(ds.band_im.data) if "band_im" in ds.coords else [None]
    m_=xr.Dataset(coords={"band_im":b,"row":ds.row.data,"col":ds.col.data})
    if "disparity" in ds:
        m_.coords["band_disp"]=["min","max"]; m_["disparity"]=ds["disparity"]
    m_.attrs["disparity_source"]=ds.attrs["disparity_source"]; return m_
def run_mc(l,r,mc):
    m=PandoraMachine(); m.check_conf({"pipeline":{"matching_cost":copy.deepcopy(mc)}},meta(l),meta(r))
    pandora.run(m,l,r,{"input":{},"pipeline":m.pipeline_cfg["pipeline"]}); return m.left_cv
from pandora import aggregation
import math
def nanmed3(img):
    out=img.copy(); H,W=img.shape
    for r in range(1,H-1):
        for c in range(1,W-1):
            if np.isnan(img[r,c]): continue
            w=img[r-1:r+2,c-1:c+2].ravel(); w=w[~np.isnan(w)]
            out[r,c]=np.float32(np.median(w.astype(np.float32)))
    return out
def arms(img,dist,inten):
    H,W=img.shape; A=np.zeros((H,W,4),int)
    def arm(r,c,dr,dc):
        if not np.isfinite(img[r,c]): return 0
        n=0
        for k in range(1,dist):
            rr,cc=r+dr*k,c+dc*k
            if not(0<=rr<H and 0<=cc<W): break
            if not np.isfinite(img[rr,cc]) or abs(img[r,c]-img[rr,cc])>=inten: break
            n+=1
        if n==0:
            rr,cc=r+dr,c+dc
            if 0<=rr<H and 0<=cc<W and np.isfinite(img[rr,cc]): n=1
        return n
    for r in range(H):
        for c in range(W):
            A[r,c]=[arm(r,c,0,-1),arm(r,c,0,1),arm(r,c,-1,0),arm(r,c,1,0)]
    return A
def shiftR(R,sub):
    out=[R]
    for i in range(1,sub):
        w=i/sub; out.append((R[:,:-1]*(1-w)+R[:,1:]*w).astype(np.float32))
    return out
def refcbca(L,R,ML,MR,cv,disps,off,sub,dist,inten):
    H,W=L.shape
    Lm=L.astype(np.float32).copy(); 
    if ML is not None: Lm[ML!=0]=np.nan
    Lf=nanmed3(Lm); Lf=np.where(np.isnan(Lf),np.inf,Lf)
    Rs=[]
    for i,Ri in enumerate(shiftR(R.astype(np.float32),sub)):
        Rm=Ri.copy()
        if MR is not None:
            bad=(MR!=0)
            if i==0: Rm[bad]=np.nan
            else: Rm[bad[:,:-1]|bad[:,1:]]=np.nan
        Rf=nanmed3(Rm); Rs.append(np.where(np.isnan(Rf),np.inf,Rf))
    sl=(slice(off,H-off),slice(off,W-off)) if off else (slice(None),slice(None))
    AL=arms(Lf[sl],dist,inten); AR=[arms(x[off:H-off, off:x.shape[1]-off] if off else x,dist,inten) for x in Rs]
    cvi=cv[sl] if off else cv
    h,w,nd=cvi.shape; out=cvi.copy().astype(np.float64)
    for di,d in enumerate(disps):
        i=int((d%1)*sub); ar=AR[i]
        for r in range(h):
            for c in range(w):
                x=c+d
                if x<0 or x>=ar.shape[1]:
                    if not np.isnan(cvi[r,c,di]): out[r,c,di]=0.0
                    continue
                q=int(x)
                top=min(AL[r,c,2],ar[r,q,2]); bot=min(AL[r,c,3],ar[r,q,3])
                s=0.0;n=0
                for rr in range(r-top,r+bot+1):
                    le=min(AL[rr,c,0],ar[rr,q,0]); ri=min(AL[rr,c,1],ar[rr,q,1])
                    for cc in range(c-le,c+ri+1):
                        n+=1
                        if not np.isnan(cvi[rr,cc,di]): s+=cvi[rr,cc,di]
                if not np.isnan(cvi[r,c,di]): out[r,c,di]=s/n
    res=cv.astype(np.float64).copy()
    if off: res[off:H-off,off:W-off]=out
    else: res=out
    return res
rng=np.random.default_rng(11); tot=bad=0
for it in range(400):
    w=int(rng.choice([1,3,5])); sub=int(rng.choice([1,2,4])); off=w//2
    H=w+int(rng.integers(1,6)); W=w+int(rng.integers(2,8))
    L=rng.integers(0,int(rng.choice([4,40])),(H,W)).astype(np.float32); R=rng.integers(0,int(rng.choice([4,40])),(H,W)).astype(np.float32)
    def mkmask():
        if rng.random()<0.5: return None
        return rng.choice([0,0,0,0,0,1,2],size=(H,W))
    ML=mkmask(); MR=mkmask()
    a=int(rng.integers(-2,2)); b=a+int(rng.integers(0,3))
    if max(abs(a),abs(b))+w>W: continue
    dist=int(rng.integers(1,6)); inten=float(rng.choice([0.5,2.,5.,30.]))
    l=mk(L,a,b,ML); r=mk(R,a,b,MR,disp=False)
    cvds=run_mc(l,r,{"matching_cost_method":"sad","window_size":w,"subpix":sub})
    before=cvds["cost_volume"].data.copy()
    ag=aggregation.AbstractAggregation(aggregation_method="cbca",cbca_distance=dist,cbca_intensity=inten)
    ag.cost_volume_aggregation(l,r,cvds)
    got=cvds["cost_volume"].data
    exp=refcbca(L,R,ML,MR,before,cvds.disp.data,off,sub,dist,inten)
    tot+=1
    nanmis=np.isnan(got)!=np.isnan(exp); valmis=(~np.isnan(got))&(~np.isnan(exp))&(np.abs(got-exp)>1e-4*np.maximum(1,np.abs(exp)))
    if nanmis.any() or valmis.any():
        bad+=1; idx=np.argwhere(nanmis|valmis)[:3]
        print("MIS",it,"w",w,"sub",sub,H,W,"int",a,b,"dist",dist,"inten",inten,"masks",ML is not None,MR is not None,int(nanmis.sum()),int(valmis.sum()),[(tuple(i),float(got[tuple(i)]),float(exp[tuple(i)])) for i in idx])
print("total",tot,"bad",bad)
