"""DESIGN PROBE (throw-away, not part of the verification machinery).
Naive per-pixel matching-cost reference vs. the real cost volume; run with /venv/bin/python.
Result on the pinned tree: 118/118 in-domain random cases agree exactly (sad/ssd/census) or within 1e-5 (zncc);
2 cases with |d| reaching past the image width raise ValueError in compute_cost_volume (DESIGN.md section 6, #14).
"""
import numpy as np, xarray as xr, copy, warnings, logging, math
warnings.filterwarnings("ignore")
import pandora
from pandora.state_machine import PandoraMachine
logging.getLogger("transitions.core").setLevel(logging.ERROR)
def mk(img, dmin, dmax, msk=None, disp=True, bands=None, conv=(0,1)):
    if img.ndim==2:
        ds = xr.Dataset({"im": (["row","col"], img.astype(np.float32))}, coords={"row": np.arange(img.shape[0]), "col": np.arange(img.shape[1])})
    else:
        ds = xr.Dataset({"im": (["band_im","row","col"], img.astype(np.float32))}, coords={"band_im":bands,"row": np.arange(img.shape[1]), "col": np.arange(img.shape[2])})
    ds.attrs = {"no_data_img": -9999, "valid_pixels": conv[0], "no_data_mask": conv[1], "crs": None, "transform": None}
    H,W=img.shape[-2:]
    if msk is not None: ds["msk"] = (["row","col"], msk.astype(np.int16))
    if disp:
        ds.coords["band_disp"]=["min","max"]
        ds["disparity"] = xr.DataArray(np.array([np.broadcast_to(dmin,(H,W)),np.broadcast_to(dmax,(H,W))]).astype(np.float32), dims=["band_disp","row","col"])
        ds.attrs["disparity_source"]=[int(np.min(dmin)),int(np.max(dmax))] if np.ndim(dmin)==0 else "grid"
    else: ds.attrs["disparity_source"]=None
    return ds
def meta(ds):
    b=list(ds.band_im.data) if "band_im" in ds.coords else [None]
    m_=xr.Dataset(coords={"band_im":b,"row":ds.row.data,"col":ds.col.data})
    if "disparity" in ds:
        m_.coords["band_disp"]=["min","max"]; m_["disparity"]=ds["disparity"]
    m_.attrs["disparity_source"]=ds.attrs["disparity_source"]; return m_
def run_mc(l,r,mc):
    m=PandoraMachine(); m.check_conf({"pipeline":{"matching_cost":copy.deepcopy(mc)}},meta(l),meta(r))
    pandora.run(m,l,r,{"input":{},"pipeline":m.pipeline_cfg["pipeline"]}); return m.left_cv
def interp(Rrow, x):  # value of right row at fractional col x, or None if outside
    k=math.floor(x); w=x-k
    if w==0: return Rrow[k] if 0<=k<len(Rrow) else None
    if k<0 or k+1>=len(Rrow): return None
    return np.float32(np.float32(1-w)*Rrow[k]+np.float32(w)*Rrow[k+1])
def ref(L,R,ML,MR,dmin,dmax,meth,w,sub,conv=(0,1)):
    H,W=L.shape; h=w//2
    gmin=int(np.min(dmin)); gmax=int(np.max(dmax))
    disps=[gmin+i/sub for i in range((gmax-gmin)*sub+1)]
    out=np.full((H,W,len(disps)),np.nan)
    nodL=(ML==conv[1]) if ML is not None else np.zeros((H,W),bool); invL=((ML!=conv[0])&(ML!=conv[1])) if ML is not None else np.zeros((H,W),bool)
    nodR=(MR==conv[1]) if MR is not None else np.zeros((H,W),bool); invR=((MR!=conv[0])&(MR!=conv[1])) if MR is not None else np.zeros((H,W),bool)
    dmn=np.broadcast_to(dmin,(H,W)); dmx=np.broadcast_to(dmax,(H,W))
    for r in range(H):
      for c in range(W):
        for di,d in enumerate(disps):
            if d<dmn[r,c] or d>dmx[r,c]: continue
            if r-h<0 or r+h>=H or c-h<0 or c+h>=W: continue
            ok=True; lw=[];rw=[]
            if invL[r,c]: continue
            # right centre neighbours
            x=c+d; k=math.floor(x); nb=[k] if x==k else [k,k+1]
            if any(not(0<=q<W) for q in nb): continue
            if any(invR[r,q] for q in nb): continue
            for i in range(-h,h+1):
                for j in range(-h,h+1):
                    if nodL[r+i,c+j]: ok=False
                    xx=c+j+d; kk=math.floor(xx); nbs=[kk] if xx==kk else [kk,kk+1]
                    if any(not(0<=q<W) for q in nbs): ok=False; continue
                    if any(nodR[r+i,q] for q in nbs): ok=False
                    lw.append(L[r+i,c+j]); rw.append(interp(R[r+i],xx))
            if not ok: continue
            lw=np.array(lw,dtype=np.float64); rw=np.array(rw,dtype=np.float64)
            if meth=="sad": v=np.abs(lw-rw).sum()
            elif meth=="ssd": v=((lw-rw)**2).sum()
            elif meth=="census":
                cl=lw[len(lw)//2]; cr=rw[len(rw)//2]; v=np.sum((lw>cl)!=(rw>cr))
            else:
                vl=lw.var(); vr=rw.var()
                v=0.0 if vl<=0 or vr<=0 else ((lw*rw).mean()-lw.mean()*rw.mean())/math.sqrt(vl*vr)
            out[r,c,di]=v
    return np.array(disps),out
rng=np.random.default_rng(7)
tot=0;bad=0
for it in range(120):
    meth=rng.choice(["sad","ssd","census","zncc"]); w=int(rng.choice([3,5])) if meth=="census" else int(rng.choice([1,3,5])); sub=int(rng.choice([1,2,4]))
    H=w+int(rng.integers(0,4)); W=w+int(rng.integers(1,7))
    L=rng.integers(0,int(rng.choice([3,20])),(H,W)).astype(np.float32); R=rng.integers(0,int(rng.choice([3,20])),(H,W)).astype(np.float32)
    conv=(0,1) if rng.random()<0.7 else (5,7)
    def mkmask():
        if rng.random()<0.4: return None
        return rng.choice([conv[0],conv[0],conv[0],conv[0],conv[1],2,3],size=(H,W))
    ML=mkmask(); MR=mkmask()
    a=int(rng.integers(-3,3)); b=a+int(rng.integers(0,4))
    if rng.random()<0.4:
        dmin=rng.integers(a,b+1,(H,W)); dmax=np.minimum(b,dmin+rng.integers(0,3,(H,W)))
    else: dmin,dmax=a,b
    l=mk(L,dmin,dmax,ML,conv=conv); r=mk(R,dmin,dmax,MR,disp=False,conv=conv)
    try:
        cv=run_mc(l,r,{"matching_cost_method":str(meth),"window_size":w,"subpix":sub})
    except Exception as e:
        print("EXC",it,meth,w,sub,H,W,a,b,type(e).__name__,str(e)[:100]); bad+=1; continue
    disps,exp=ref(L,R,ML,MR,dmin,dmax,meth,w,sub,conv)
    got=cv["cost_volume"].data
    tot+=1
    if not np.array_equal(cv.disp.data.astype(float),disps): print("AXIS",it,cv.disp.data,disps); bad+=1; continue
    nanmis=np.isnan(got)!=np.isnan(exp)
    tol=1e-5 if meth=="zncc" else 0
    valmis=(~np.isnan(got))&(~np.isnan(exp))&(np.abs(got-exp)>tol)
    if nanmis.any() or valmis.any():
        bad+=1
        idx=np.argwhere(nanmis|valmis)[:3]
        print("MIS",it,meth,"w",w,"sub",sub,H,W,"int",a,b,"grid" if np.ndim(dmin) else "scalar","masks",ML is not None,MR is not None,"nan",int(nanmis.sum()),"val",int(valmis.sum()),[(tuple(i),got[tuple(i)],exp[tuple(i)],disps[i[2]]) for i in idx])
print("total",tot,"bad",bad)
